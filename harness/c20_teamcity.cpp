// C20 — the TeamCity output is a balanced, correctly escaped service-message stream.
// Decoder: a run of 1..5 group segments x 1..4 scripted tests (IGNORE_TESTs, run-ignored on/off); a test fails by
//          FAIL(text) at a decoded (file, line) in its body and/or teardown, optionally preceded by failures that do not
//          leave the test; failure locations inside the test, in another file, or above the test's line (the
//          "TEST failed (file:line): " branch).  Names, paths and messages from token tables weighted towards ' | [ ]
//          (messages also CR, LF).  One string in ten is LONG: its length comes from a lattice around the powers of two
//          (63..5000) or is random, and it is a run of one ordinary character, a cycling alphabet, a run of one character
//          that needs escaping, an ordinary run with one special character, or alternating blocks.  A test may also fail
//          by a real STRCMP_EQUAL of two long strings (the message built by the framework holds both operands).
//          Group names are never empty (DESIGN A.5); one TEST name in twelve is the empty string.
//          Every shell owns exact-size heap copies of its group name, test name and file name (equal text never means equal
//          address).  A run may have 0..2 group filters and 0..2 name filters in effect (substring / strict / inverted /
//          inverted strict; values mostly the program's own names or parts of them), set on the registry or through the
//          runner's -g/-sg/-xg/-xsg/-n/-sn/-xn/-xsn.
//          Decoded last (absent bytes = none of it): -v, -c, tests run in a separate process (-p, 1 case in 32; the stream is
//          captured in shared memory so that the child's messages are seen), up to three actions of a scripted TestPlugin (pre or
//          post action of a test: print a line through the result, or record a failure for the test), up to two lines printed by
//          tests themselves (newline-terminated, no '#').
//          Bytes above 0x7F (decoded very last): up to three insertions of a high-byte token (valid 2/3/4-byte UTF-8 sequences, lone
//          continuation and lead bytes, 0xFE, 0xFF, also next to ' | [ ]) into a group name, test name, file name, failure file,
//          failure text (incl. STRCMP_EQUAL operands) or plugin text: bytes are bytes, a value has to decode to the same bytes.
//          The registry is run 1..3 times against the SAME output object with a fresh TestResult per pass (what
//          CommandLineTestRunner does for -rN), the order optionally reversed or re-shuffled before a pass; one case in three
//          goes through the REAL, unmodified CommandLineTestRunner (parseArguments -> createTeamCityOutput; the stream is captured
//          at the PlatformSpecificFPuts seam) with argv "-oteamcity [-rN] [-ri] [-b] [-sSEED] [-v] [-c] [-p] [filters]".
// Execution: a REAL run: TestRegistry::runAllTests with a TeamCityTestOutput subclass that only captures printBuffer
//          (and notes which tests the registry announced in which pass: the order after a shuffle is an input, not a result).
// Oracle:  an independent decoder of the service-message grammar; the decoded message sequence must equal the sequence
//          the script implies (suite start/finish paired by name around its tests, test start/finish paired by name,
//          testIgnored exactly for tests that are not run, every testFailed between start and finish of its own test,
//          every decoded value equal to the original text).
#include "common.h"
#include "CppUTest/TeamCityTestOutput.h"
#include "CppUTest/CommandLineTestRunner.h"
#include "CppUTest/TestFilter.h"
#include "CppUTest/TestPlugin.h"
#include "CppUTest/TestFailure.h"
#include <sys/mman.h>
#include <memory>
#include <algorithm>

using verif::Reader;
using verif::sfmt;

namespace {

const char* const KEY_FILE = "C20:test-file-unescaped-in-failed-message";

// ---------------------------------------------------------------- model of a case
struct Step { bool exits; std::string text, file; uint32_t line; bool strcmp = false; std::string op2; };
// FAIL(text) at (file,line); exits == leaves the phase (the normal FAIL); strcmp: STRCMP_EQUAL(text, op2) at (file,line) instead
struct TestM {
    std::string group, name, file; uint32_t line = 1; bool ignored = false; std::vector<Step> body, teardown;
    int pluginKind[2] = {-1, -1};      // scripted plugin, [0] pre action, [1] post action of this test: -1 nothing, 0 print a line through the result, 1 record a failure
    std::string pluginText[2];
    std::vector<std::string> prints;   // lines the test prints at the start of its body (ordinary console text between the messages)
};
struct CaseM {
    bool runIgnored = false;
    std::vector<TestM> tests;          // in registration order; a suite = maximal run of equal group names in the order of a pass
    uint32_t passes = 1;               // runs of the registry against the same output object
    bool viaRunner = false;            // through CommandLineTestRunner (-rN ...) instead of the harness's own loop
    uint32_t op[3] = {0, 0, 0};        // before pass p: 0 keep, 1 reverse, 2 shuffle (runner: op[0] only; -b once, -s before every pass)
    uint32_t shuffleSeed = 1;
    struct Filter { bool strict = false, invert = false; std::string value; };
    std::vector<Filter> groupFilters, nameFilters;   // a test is selected when (no group filter or one of them matches its group) and the same for its name
    bool verbose = false, color = false;   // -v, -c
    bool separateProcess = false;          // -p: every executed test runs in a forked child
};
bool filter_matches(const CaseM::Filter& f, const std::string& name) {
    bool m = f.strict ? name == f.value : name.find(f.value) != std::string::npos;
    return f.invert ? !m : m;
}
bool selected(const CaseM& c, const TestM& t) {
    bool g = c.groupFilters.empty(), n = c.nameFilters.empty();
    for (auto& f : c.groupFilters) if (filter_matches(f, t.group)) g = true;
    for (auto& f : c.nameFilters) if (filter_matches(f, t.name)) n = true;
    return g && n;
}

struct Event {
    enum Kind { SuiteStart, SuiteFinish, TestStart, TestIgnored, TestFailed, TestFinish } kind;
    std::string name;                 // suite or test name
    bool optional = false;            // SuiteStart/SuiteFinish of a group none of whose tests is selected: an empty suite or nothing at all
    std::string loc, locWithPrefix;   // TestFailed: "file:line" and "TEST failed (tfile:tline): file:line"
    std::string details;              // TestFailed: the failure message
    bool natural = false;             // TestFailed: message built by the framework (STRCMP_EQUAL); details = operand 1, details2 = operand 2
    std::string details2;
    bool outside = false;             // TestFailed: reported from another file or from above the test's line
    bool knownCondition = false;      // TestFailed: outside && the test's file name needs escaping
};
const char* kind_name(Event::Kind k) {
    static const char* n[] = {"testSuiteStarted", "testSuiteFinished", "testStarted", "testIgnored", "testFailed", "testFinished"};
    return n[k];
}

// ---------------------------------------------------------------- generator tables
const char* const T_PLAIN[] = {"a", "b", "c", "X", "Y", "Z", "0", "1", "9", "_"};
const char* const T_TC[] = {"a", "'", "|", "[", "]", "'", "|", "]", "||", "|'", "|n", "|r", "|[", "|]", "']", "' ", "='", "|0x00A7", "|x",
                            "##teamcity[", "name='", " ", "b", "/", ".", ":", "(", ")", "[]", "''"};
const char* const T_BREAK[] = {"\n", "\r", "\r\n", "\n\n"};

template <size_t N> void add_tokens(Reader& r, std::string& s, uint32_t n, const char* const (&tab)[N]) {
    for (uint32_t i = 0; i < n; i++) s += tab[r.below((uint32_t)N)];
}
void add_class(Reader& r, std::string& s, uint32_t cls, uint32_t n) {   // 0 plain, 1 TeamCity specials, 2 any printable ASCII
    switch (cls) {
    default:
    case 0: add_tokens(r, s, n, T_PLAIN); break;
    case 1: add_tokens(r, s, n, T_TC); break;
    case 2: for (uint32_t i = 0; i < n; i++) s.push_back((char)(0x20 + r.below(95))); break;
    }
}
// ---- long strings: the code imposes no length limit, so neither does the generator
const uint32_t LENS[] = {0, 1, 2, 63, 64, 65, 127, 128, 129, 255, 256, 257, 511, 512, 1000, 4095, 4096, 5000};
const char ORDINARY[] = "abcdefghijklmnopqrstuvwxyz0123456789ABCDEFGHIJKLMNOPQRSTUVWXYZ _.,:;/\\-+*=()<>&\"#%!?$@^~{}`";
std::string gen_long(Reader& r, const char* specials, uint32_t minlen) {
    uint32_t li = r.below(24);
    uint32_t len = li < 18 ? LENS[li] : r.below(5001);
    if (len < minlen) len = minlen;
    size_t nsp = strlen(specials), nord = sizeof ORDINARY - 1;
    uint32_t shape = r.below(6);
    if (nsp == 0 && shape >= 2) shape &= 1;
    std::string s;
    s.reserve(len);
    switch (shape) {
    default:
    case 0: { char ch = ORDINARY[r.below((uint32_t)nord)]; s.assign(len, ch); break; }                                   // one ordinary character
    case 1: { uint32_t off = r.below((uint32_t)nord); for (uint32_t i = 0; i < len; i++) s.push_back(ORDINARY[(off + i) % nord]); break; }   // cycling alphabet
    case 2: { char ch = specials[r.below((uint32_t)nsp)]; s.assign(len, ch); break; }                                 // one character that needs escaping
    case 3: {                                                                                                             // ordinary run with one special character in it
        char ch = ORDINARY[r.below(36)]; s.assign(len, ch);
        if (len) { uint32_t pv = r.below(4); uint32_t pos = pv == 0 ? len - 1 : (pv == 1 ? len / 2 : (pv == 2 ? 0 : r.below(len > 65536 ? 65536 : len))); s[pos] = specials[r.below((uint32_t)nsp)]; }
        break; }
    case 4: {                                                                                                             // blocks of ordinary characters separated by one special character
        static const uint32_t BL[] = {1, 2, 63, 64, 126, 127, 128, 129, 255, 256};
        uint32_t bl = r.pick(BL); char sp = specials[r.below((uint32_t)nsp)]; char ch = ORDINARY[r.below(36)];
        for (uint32_t i = 0; i < len; i++) s.push_back((i % (bl + 1)) == bl ? sp : ch);
        break; }
    case 5: { for (uint32_t i = 0; i < len; i++) s.push_back(i % 2 ? specials[(i / 2) % nsp] : ORDINARY[(i / 2) % nord]); break; }   // every second character needs escaping
    }
    return s;
}

std::string gen_name(Reader& r, uint32_t maxtok) {   // never empty
    if (r.below(10) == 9) return gen_long(r, "'|[]", 1);
    uint32_t v = r.below(8);
    uint32_t cls = v == 0 ? 0 : (v <= 5 ? 1 : 2);
    std::string s;
    add_class(r, s, cls, 1 + r.below(maxtok));
    return s;
}
std::string gen_text(Reader& r, uint32_t maxtok) {   // messages: may be empty, may contain line breaks
    if (r.below(10) == 9) return gen_long(r, "'|[]\r\n", 0);
    uint32_t cls = r.below(4);   // 0 plain, 1 specials, 2 specials + breaks, 3 printable + breaks
    uint32_t n = r.below(maxtok + 1);
    std::string s;
    for (uint32_t i = 0; i < n; i++) {
        if (cls >= 2 && r.below(4) == 3) add_tokens(r, s, 1, T_BREAK);
        else add_class(r, s, cls == 0 ? 0 : (cls == 3 ? 2 : 1), 1);
    }
    return s;
}
const uint32_t LINES[] = {1, 2, 10, 42, 999, 4096, 65535, 100000};

Step gen_step(Reader& r, const TestM& t, bool exits) {
    Step s;
    s.exits = exits;
    s.text = gen_text(r, 8);
    s.file = t.file; s.line = t.line;
    if (r.below(3) == 2) s.file = gen_name(r, 6);     // reported from another file
    switch (r.below(4)) {
    default:
    case 0: s.line = t.line + 1 + r.below(20); break;
    case 1: s.line = t.line; break;
    case 2: s.line = t.line > 1 ? 1 + r.below(t.line - 1 > 60000 ? 60000 : t.line - 1) : t.line; break;   // above the test's line
    case 3: s.line = r.pick(LINES); break;
    }
    return s;
}
// STRCMP_EQUAL(a, b) with two different, mostly long operands: the framework builds "expected <a>\n\tbut was  <b>\n\tdifference ..."
Step gen_strcmp_step(Reader& r, const TestM& t) {
    Step s = gen_step(r, t, true);
    s.strcmp = true;
    static const uint32_t OL[] = {200, 127, 128, 255, 256, 1000, 3000, 20};
    uint32_t len = r.pick(OL);
    uint32_t shape = r.below(3);
    s.text.clear();
    if (shape == 0) s.text.assign(len, ORDINARY[r.below(36)]);
    else if (shape == 1) for (uint32_t i = 0; i < len; i++) s.text.push_back(ORDINARY[i % (sizeof ORDINARY - 1)]);
    else for (uint32_t i = 0; i < len; i++) s.text.push_back((i % 50) == 49 ? "'|[]\r\n"[(i / 50) % 6] : ORDINARY[i % 36]);
    s.op2 = s.text;
    switch (r.below(3)) {
    default:
    case 0: s.op2 += "X"; break;
    case 1: { uint32_t pos = r.below(len); s.op2[pos] = s.op2[pos] == '#' ? '%' : '#'; break; }
    case 2: s.op2 = s.op2.substr(0, len / 2); break;
    }
    return s;
}

CaseM decode(Reader& r) {
    CaseM c;
    c.runIgnored = r.below(4) == 1;
    { uint32_t v = r.below(6); c.passes = v <= 2 ? 1 : (v <= 4 ? 2 : 3); }
    c.viaRunner = r.below(3) == 2;
    for (uint32_t p = 0; p < c.passes; p++) { uint32_t v = r.below(4); c.op[p] = v <= 1 ? 0 : v - 1; }
    if (c.op[0] == 2 || c.op[1] == 2 || c.op[2] == 2) c.shuffleSeed = 1 + r.below(200);
    uint32_t ng = 1 + r.below(5);
    std::vector<std::string> names;
    for (uint32_t g = 0; g < ng; g++) {
        std::string gname;
        if (g > 0 && r.below(8) == 7) gname = names[r.below(g)];   // an earlier name again (adjacent: same suite; otherwise a second suite of that name)
        else gname = gen_name(r, 6);
        names.push_back(gname);
        std::string groupFile = gen_name(r, 6);
        uint32_t nt = 1 + r.below(4);
        for (uint32_t t = 0; t < nt; t++) {
            TestM tm;
            tm.group = gname;
            tm.name = r.below(12) == 11 ? std::string() : gen_name(r, 6);   // TEST(group, ) / setTestName(""): an empty test name is expressible
            tm.file = r.below(4) == 3 ? gen_name(r, 6) : groupFile;
            tm.line = r.pick(LINES);
            tm.ignored = r.below(6) == 5;
            uint32_t shape = r.below(9);   // 0,1,2 pass; 3,4 FAIL in body; 5 FAIL in teardown; 6 both; 7 soft failures then FAIL; 8 STRCMP_EQUAL of long strings
            if (shape == 7) { uint32_t k = 1 + r.below(3); for (uint32_t i = 0; i < k; i++) tm.body.push_back(gen_step(r, tm, false)); if (r.flag()) tm.body.push_back(gen_step(r, tm, true)); }
            if (shape == 3 || shape == 4 || shape == 6) tm.body.push_back(gen_step(r, tm, true));
            if (shape == 5 || shape == 6) tm.teardown.push_back(gen_step(r, tm, true));
            if (shape == 8) tm.body.push_back(gen_strcmp_step(r, tm));
            c.tests.push_back(tm);
        }
    }
    // filters, decoded last: values come mostly from the program's own names so that proper subsets are selected
    for (int which = 0; which < 2; which++) {
        uint32_t v = r.below(8);
        uint32_t n = v <= 4 ? 0 : (v <= 6 ? 1 : 2);
        for (uint32_t i = 0; i < n; i++) {
            CaseM::Filter f;
            uint32_t k = r.below(6);   // 0,1 substring; 2,3 strict; 4 inverted; 5 inverted strict
            f.strict = k == 2 || k == 3 || k == 5; f.invert = k >= 4;
            const TestM& src = c.tests[r.below((uint32_t)c.tests.size())];
            const std::string& own = which == 0 ? src.group : src.name;
            switch (r.below(4)) {
            default:
            case 0: case 1: f.value = own; break;                                            // a name of the program
            case 2: f.value = own.empty() ? own : own.substr(r.below((uint32_t)own.size() > 200 ? 200 : (uint32_t)own.size()), 1 + r.below(3)); break;   // a piece of one
            case 3: f.value = gen_name(r, 3); break;                                         // most likely matches nothing
            }
            (which == 0 ? c.groupFilters : c.nameFilters).push_back(f);
        }
    }
    // extras, decoded after everything else so that older inputs keep their meaning
    c.verbose = r.below(8) >= 6;
    c.color = r.below(8) == 7;
    c.separateProcess = r.below(32) == 31;
    auto line_of_text = [&](Reader& rr) {   // a well-behaved printed line: no '#', ends with a line break
        std::string t = gen_text(rr, 8), o;
        for (char ch : t) if (ch != '#') o.push_back(ch);
        return o + "\n";
    };
    uint32_t nplug = r.below(4);
    for (uint32_t i = 0; i < nplug; i++) {
        TestM& t = c.tests[r.below((uint32_t)c.tests.size())];
        uint32_t when = r.below(2);
        t.pluginKind[when] = (int)r.below(2);
        t.pluginText[when] = t.pluginKind[when] == 0 ? line_of_text(r) : gen_text(r, 8);
    }
    uint32_t nprint = r.below(3);
    for (uint32_t i = 0; i < nprint; i++) c.tests[r.below((uint32_t)c.tests.size())].prints.push_back(line_of_text(r));
    // bytes above 0x7F, decoded very last: a token is inserted into one of the values that reach the stream
    static const char* const HIGH[] = {"\xC3\xA9", "\xE2\x82\xAC", "\xF0\x9F\x98\x80", "\x80", "\xBF", "\xFF", "\xFE", "\xC3", "\xE2\x82", "\xC3\xA9'", "|\xC3\xA9", "\xE2\x82\xAC]",
                                       "[\xFF", "\xC3\xA9\xC3\xA9\xC3\xA9", "\xC2\x80", "\xEF\xBF\xBF", "\xF4\x8F\xBF\xBF", "\xC0\xAF", "\xED\xA0\x80", "\xA9\xC3"};
    uint32_t nhigh = r.below(4);
    for (uint32_t i = 0; i < nhigh; i++) {
        TestM& t = c.tests[r.below((uint32_t)c.tests.size())];
        std::vector<std::string*> fields = {&t.name, &t.file};
        for (auto& st : t.body) { fields.push_back(&st.text); fields.push_back(&st.file); }
        for (auto& st : t.teardown) { fields.push_back(&st.text); fields.push_back(&st.file); }
        for (int w = 0; w < 2; w++) if (t.pluginKind[w] == 1) fields.push_back(&t.pluginText[w]);
        uint32_t which = r.below((uint32_t)fields.size() + 1);
        std::string tok = HIGH[r.below(sizeof HIGH / sizeof HIGH[0])];
        if (which == fields.size()) {   // the group name: for every test of that group, so that the suite stays one suite
            std::string old = t.group, neu = old;
            neu.insert(r.below((uint32_t)(old.size() > 300 ? 300 : old.size()) + 1), tok);
            for (auto& o : c.tests) if (o.group == old) o.group = neu;
        } else {
            std::string& f = *fields[which];
            bool sameFile = &f != &t.file ? false : true;
            std::string old = f;
            f.insert(r.below((uint32_t)(f.size() > 300 ? 300 : f.size()) + 1), tok);
            if (sameFile) for (auto* ph : {&t.body, &t.teardown}) for (auto& st : *ph) if (st.file == old) st.file = f;   // failures "in the test's file" stay there
        }
    }
    return c;
}

bool has_any(const std::string& s, const char* set) { return s.find_first_of(set) != std::string::npos; }
std::string P(const std::string& s) {
    if (s.size() <= 160) return verif::printable(s);
    return verif::printable(s.substr(0, 70)) + verif::sfmt("...(%zu chars)...", s.size()) + verif::printable(s.substr(s.size() - 40));
}
// where two texts part: lengths, position, and the surroundings of the first difference
std::string D(const std::string& got, const std::string& want) {
    size_t i = 0;
    while (i < got.size() && i < want.size() && got[i] == want[i]) i++;
    size_t from = i > 24 ? i - 24 : 0;
    return verif::sfmt("lengths %zu / %zu, first difference at offset %zu: got \"..%s\" expected \"..%s\"", got.size(), want.size(), i,
                       verif::printable(got.substr(from, 60)).c_str(), verif::printable(want.substr(from, 60)).c_str());
}
// a window of a long line around a column
std::string W(const std::string& line, size_t col) {
    if (line.size() <= 200) return verif::printable(line);
    size_t from = col > 80 ? col - 80 : 0;
    return verif::sfmt("(%zu chars) ..", line.size()) + verif::printable(line.substr(from, 160)) + "..";
}

// the message sequence the script implies, by the meaning of the run alone
void expected_events(const CaseM& c, const std::vector<const TestM*>& order, std::vector<Event>& ev, size_t& suites) {
    bool anySelected = false;
    for (size_t i = 0; i < order.size(); i++) {
        const TestM& t = *order[i];
        if (i == 0 || order[i - 1]->group != t.group) {
            // a suite = a maximal run of equal group names in the registry order (selected or not)
            anySelected = false;
            for (size_t j = i; j < order.size() && order[j]->group == t.group; j++) if (selected(c, *order[j])) anySelected = true;
            Event e; e.kind = Event::SuiteStart; e.name = t.group; e.optional = !anySelected; ev.push_back(e);
            if (anySelected) suites++;
        }
        bool last = i + 1 == order.size() || order[i + 1]->group != t.group;
        if (!selected(c, t)) {   // a filtered-out test produces no message
            if (last) { Event e; e.kind = Event::SuiteFinish; e.name = t.group; e.optional = !anySelected; ev.push_back(e); }
            continue;
        }
        { Event e; e.kind = Event::TestStart; e.name = t.name; ev.push_back(e); }
        bool executed = !t.ignored || c.runIgnored;
        size_t failuresBefore = ev.size();
        auto plugin = [&](int when) {   // a plugin reports for the test itself: location = the test's file and line
            if (!executed || t.pluginKind[when] != 1) return;
            Event e; e.kind = Event::TestFailed; e.name = t.name; e.details = t.pluginText[when];
            e.loc = t.file + ":" + std::to_string(t.line);
            e.locWithPrefix = "TEST failed (" + e.loc + "): " + e.loc;
            ev.push_back(e);
        };
        if (!executed) { Event e; e.kind = Event::TestIgnored; e.name = t.name; ev.push_back(e); }
        plugin(0);
        if (executed)
            for (int ph = 0; ph < 2; ph++)
                for (auto& s : ph == 0 ? t.body : t.teardown) {
                    Event e; e.kind = Event::TestFailed; e.name = t.name; e.details = s.text;
                    e.natural = s.strcmp; e.details2 = s.op2;
                    if (s.strcmp) {   // the text the framework's own failure class builds for these operands is the original
                        UtestShell any("g", "n", "f", 1);
                        e.details = StringEqualFailure(&any, s.file.c_str(), s.line, s.text.c_str(), s.op2.c_str(), "").getMessage().asCharString();
                    }
                    e.loc = s.file + ":" + std::to_string(s.line);
                    e.locWithPrefix = "TEST failed (" + t.file + ":" + std::to_string(t.line) + "): " + e.loc;
                    e.outside = s.file != t.file || s.line < t.line;
                    e.knownCondition = e.outside && has_any(t.file, "'|[]");
                    ev.push_back(e);
                    if (s.exits) break;
                }
        plugin(1);
        if (executed && c.separateProcess) {
            // the child printed the messages above; when anything failed there the parent adds one record of its own (DESIGN A.4)
            size_t failed = 0;
            for (size_t k = failuresBefore; k < ev.size(); k++) if (ev[k].kind == Event::TestFailed) failed++;
            if (failed) {
                Event e; e.kind = Event::TestFailed; e.name = t.name; e.details = "Failed in separate process";
                e.loc = t.file + ":" + std::to_string(t.line);
                e.locWithPrefix = "TEST failed (" + e.loc + "): " + e.loc;
                ev.push_back(e);
            }
        }
        { Event e; e.kind = Event::TestFinish; e.name = t.name; ev.push_back(e); }
        if (last) { Event e; e.kind = Event::SuiteFinish; e.name = t.group; e.optional = !anySelected; ev.push_back(e); }
    }
}

// ---------------------------------------------------------------- execution against the real framework
struct SoftTerminator : TestTerminator { void exitCurrentTest() const CPPUTEST_OVERRIDE {} };
const SoftTerminator soft_terminator;

void run_steps(const std::vector<Step>& steps) {
    for (auto& st : steps) {
        if (st.strcmp) UtestShell::getCurrent()->assertCstrEqual(st.text.c_str(), st.op2.c_str(), NULLPTR, st.file.c_str(), st.line);   // STRCMP_EQUAL_LOCATION
        else if (st.exits) UtestShell::getCurrent()->fail(st.text.c_str(), st.file.c_str(), st.line);
        else UtestShell::getCurrent()->fail(st.text.c_str(), st.file.c_str(), st.line, soft_terminator);
    }
}
TestResult* current_result();
struct ScriptedTest : Utest {
    const TestM* t;
    explicit ScriptedTest(const TestM* tm) : t(tm) {}
    void testBody() CPPUTEST_OVERRIDE { for (auto& l : t->prints) current_result()->print(l.c_str()); run_steps(t->body); }
    void teardown() CPPUTEST_OVERRIDE { run_steps(t->teardown); }
};
// every shell owns exact-size heap copies of its three strings: equal text never implies equal address
struct OwnNames {
    char *g, *n, *f;
    static char* dup(const std::string& s) { char* p = (char*)malloc(s.size() + 1); memcpy(p, s.c_str(), s.size() + 1); return p; }
    explicit OwnNames(const TestM* tm) : g(dup(tm->group)), n(dup(tm->name)), f(dup(tm->file)) {}
    ~OwnNames() { free(g); free(n); free(f); }
};
struct Shell : OwnNames, UtestShell {
    const TestM* t;
    explicit Shell(const TestM* tm) : OwnNames(tm), UtestShell(g, n, f, tm->line), t(tm) {}
    Utest* createTest() CPPUTEST_OVERRIDE { return new ScriptedTest(t); }
    TestResult* result() { return getTestResult(); }
};
struct IgnoredShell : OwnNames, IgnoredUtestShell {
    const TestM* t;
    explicit IgnoredShell(const TestM* tm) : OwnNames(tm), IgnoredUtestShell(g, n, f, tm->line), t(tm) {}
    Utest* createTest() CPPUTEST_OVERRIDE { return new ScriptedTest(t); }
    TestResult* result() { return getTestResult(); }
};
TestResult* current_result() {
    UtestShell* cur = UtestShell::getCurrent();
    if (Shell* a = dynamic_cast<Shell*>(cur)) return a->result();
    return static_cast<IgnoredShell*>(cur)->result();
}
const TestM* model_of(const UtestShell& test) {
    if (const Shell* a = dynamic_cast<const Shell*>(&test)) return a->t;
    if (const IgnoredShell* b = dynamic_cast<const IgnoredShell*>(&test)) return b->t;
    return nullptr;
}

// the captured stream lives in shared memory: with -p the child's messages have to arrive in it like they would on a shared stdout
struct SharedStream { size_t len; bool overflow; char data[1]; };
const size_t STREAM_MAX = 64u << 20;
SharedStream* g_stream = nullptr;
void stream_append(const char* s) {
    size_t n = strlen(s);
    if (g_stream->len + n > STREAM_MAX) { g_stream->overflow = true; return; }
    memcpy(g_stream->data + g_stream->len, s, n);
    g_stream->len += n;
}
void seam_fputs(const char* s, PlatformSpecificFile f) { if (f == PlatformSpecificStdOut) stream_append(s); }   // ConsoleTestOutput::printBuffer of the real TeamCityTestOutput
void seam_flush() {}

struct CapturingTeamCity : TeamCityTestOutput {   // the harness's own loop: only the sink is replaced
    void printBuffer(const char* s) CPPUTEST_OVERRIDE { stream_append(s); }
    void flush() CPPUTEST_OVERRIDE {}
};

// the scripted plugin: acts before / after the test it is told to
struct ScriptPlugin : TestPlugin {
    ScriptPlugin() : TestPlugin("verif-script") {}
    void act(UtestShell& test, TestResult& result, int when) {
        const TestM* t = model_of(test);
        if (!t) return;
        if (t->pluginKind[when] == 0) result.print(t->pluginText[when].c_str());
        if (t->pluginKind[when] == 1) { TestFailure f(&test, t->pluginText[when].c_str()); result.addFailure(f); }   // as MemoryLeakWarningPlugin reports
    }
    void preTestAction(UtestShell& test, TestResult& result) CPPUTEST_OVERRIDE { act(test, result, 0); }
    void postTestAction(UtestShell& test, TestResult& result) CPPUTEST_OVERRIDE { act(test, result, 1); }
};

// per pass: the registry's test list (selected or not) when the pass starts -- an input of the output, not a result
std::vector<std::vector<const TestM*>> g_announced;
void note_order(TestRegistry& reg, const std::vector<const TestM*>* byDummy = nullptr, const std::vector<UtestShell*>* dummies = nullptr) {
    g_announced.emplace_back();
    for (UtestShell* t = reg.getFirstTest(); t; t = t->getNext()) {
        if (!dummies) { g_announced.back().push_back(model_of(*t)); continue; }
        for (size_t i = 0; i < dummies->size(); i++) if ((*dummies)[i] == t) g_announced.back().push_back((*byDummy)[i]);
    }
}

int execute(const CaseM& c) {
    verif::fake_millis_value = 0;
    g_stream->len = 0; g_stream->overflow = false;
    g_announced.clear();
    std::vector<std::unique_ptr<UtestShell>> shells;
    for (auto& t : c.tests) {
        if (t.ignored) shells.emplace_back(new IgnoredShell(&t));
        else shells.emplace_back(new Shell(&t));
    }
    TestRegistry reg;
    for (size_t i = shells.size(); i-- > 0;) reg.addTest(shells[i].get());   // addTest prepends
    ScriptPlugin plugin;
    reg.installPlugin(&plugin);
    if (c.viaRunner) {
        std::vector<std::string> args = {"harness", "-oteamcity"};
        for (int which = 0; which < 2; which++)
            for (auto& f : which == 0 ? c.groupFilters : c.nameFilters) {
                args.push_back(std::string(f.invert ? "-x" : "-") + (f.strict ? "s" : "") + (which == 0 ? "g" : "n"));
                args.push_back(f.value);
            }
        if (c.passes > 1) args.push_back("-r" + std::to_string(c.passes));
        if (c.runIgnored) args.push_back("-ri");
        if (c.op[0] == 1) args.push_back("-b");
        if (c.op[0] == 2) args.push_back("-s" + std::to_string(c.shuffleSeed));
        if (c.verbose) args.push_back("-v");
        if (c.color) args.push_back("-c");
        if (c.separateProcess) args.push_back("-p");
        // the order of each pass: what -b (once) and -s SEED (before every pass) do to a list of that length, taken from a mirror registry
        {
            std::vector<std::unique_ptr<UtestShell>> dummyOwner; std::vector<UtestShell*> dummies; std::vector<const TestM*> byDummy;
            TestRegistry mirror;
            for (auto& t : c.tests) { dummyOwner.emplace_back(new UtestShell("g", "n", "f", 1)); dummies.push_back(dummyOwner.back().get()); byDummy.push_back(&t); }
            for (size_t i = dummies.size(); i-- > 0;) mirror.addTest(dummies[i]);
            if (c.op[0] == 1) mirror.reverseTests();
            for (uint32_t p = 0; p < c.passes; p++) {
                if (c.op[0] == 2) mirror.shuffleTests(c.shuffleSeed);
                note_order(mirror, &byDummy, &dummies);
            }
        }
        std::vector<const char*> av;
        for (auto& a : args) av.push_back(a.c_str());
        {
            CommandLineTestRunner runner((int)av.size(), av.data(), &reg);   // the real runner creates the real TeamCityTestOutput
            runner.runAllTestsMain();
        }
        UtestShell::setRethrowExceptions(false);
        return 0;
    }
    CapturingTeamCity out;
    if (c.verbose) out.verbose(TestOutput::level_verbose);
    if (c.color) out.color();
    if (c.runIgnored) reg.setRunIgnored();
    if (c.separateProcess) reg.setRunTestsInSeperateProcess();
    std::vector<std::unique_ptr<TestFilter>> filters;
    for (int which = 0; which < 2; which++) {
        TestFilter* head = NULLPTR;
        for (auto& f : which == 0 ? c.groupFilters : c.nameFilters) {
            filters.emplace_back(new TestFilter(f.value.c_str()));
            if (f.strict) filters.back()->strictMatching();
            if (f.invert) filters.back()->invertMatching();
            head = filters.back()->add(head);
        }
        if (which == 0) reg.setGroupFilters(head); else reg.setNameFilters(head);
    }
    for (uint32_t p = 0; p < c.passes; p++) {
        if (c.op[p] == 1) reg.reverseTests();
        if (c.op[p] == 2) reg.shuffleTests(c.shuffleSeed + p);
        note_order(reg);
        out.printTestRun(p + 1, c.passes);
        TestResult result(out);          // a fresh result per pass, the same output object
        reg.runAllTests(result);
    }
    return 0;
}

// ---------------------------------------------------------------- independent decoder of the service-message grammar
//   message := "##teamcity[" name { " " key "='" value "'" } "]"        on a line of its own
//   value   := { plain | "|'" | "||" | "|[" | "|]" | "|n" | "|r" }     plain = anything but ' | [ ] CR LF
struct Msg { std::string name; std::vector<std::pair<std::string, std::string>> attrs;
             const std::string* attr(const char* k) const { for (auto& a : attrs) if (a.first == k) return &a.second; return nullptr; } };

bool ident_char(char ch) { return (ch >= 'a' && ch <= 'z') || (ch >= 'A' && ch <= 'Z') || (ch >= '0' && ch <= '9') || ch == '_' || ch == '-' || ch == '.'; }

bool parse_message(const std::string& line, Msg& m, std::string& err, size_t& i) {
    static const char PRE[] = "##teamcity[";
    i = sizeof PRE - 1;
    if (line.compare(0, i, PRE) != 0) { err = "does not start with ##teamcity["; return false; }
    size_t s = i;
    while (i < line.size() && ident_char(line[i])) i++;
    if (i == s) { err = "no message name"; return false; }
    m.name = line.substr(s, i - s);
    for (;;) {
        if (i >= line.size()) { err = "line ends before the closing ]"; return false; }
        if (line[i] == ']') {
            if (i + 1 != line.size()) { err = sfmt("message ends at column %zu but the line continues with \"%s\"", i + 1, P(line.substr(i + 1, 60)).c_str()); return false; }
            return true;
        }
        if (line[i] != ' ') { err = sfmt("expected space or ] at column %zu, found '%c'", i + 1, line[i]); return false; }
        i++;
        s = i;
        while (i < line.size() && ident_char(line[i])) i++;
        if (i == s) { err = sfmt("expected attribute name at column %zu", i + 1); return false; }
        std::string key = line.substr(s, i - s);
        if (line.compare(i, 2, "='") != 0) { err = sfmt("expected =' after attribute %s at column %zu", key.c_str(), i + 1); return false; }
        i += 2;
        std::string val;
        for (;;) {
            if (i >= line.size()) { err = sfmt("line ends inside the value of %s (unescaped line break or missing quote)", key.c_str()); return false; }
            char ch = line[i];
            if (ch == '\'') { i++; break; }
            if (ch == '|') {
                if (i + 1 >= line.size()) { err = sfmt("line ends after | in the value of %s", key.c_str()); return false; }
                char e = line[i + 1];
                if (e == '\'' || e == '|' || e == '[' || e == ']') val.push_back(e);
                else if (e == 'n') val.push_back('\n');
                else if (e == 'r') val.push_back('\r');
                else { err = sfmt("invalid escape |%c in the value of %s", e, key.c_str()); return false; }
                i += 2; continue;
            }
            if (ch == '[' || ch == ']' || ch == '\r') { err = sfmt("unescaped %s in the value of %s at column %zu", ch == '\r' ? "CR" : (ch == '[' ? "[" : "]"), key.c_str(), i + 1); return false; }
            val.push_back(ch); i++;
        }
        for (auto& a : m.attrs) if (a.first == key) { err = sfmt("attribute %s given twice", key.c_str()); return false; }
        m.attrs.emplace_back(key, val);
    }
}

std::string render(const CaseM& c) {
    std::string o = sfmt("%s%s%srunIgnored=%d passes=%u%s order=%u,%u,%u seed=%u;", c.verbose ? "-v " : "", c.color ? "-c " : "", c.separateProcess ? "-p " : "", c.runIgnored, c.passes, c.viaRunner ? " via CommandLineTestRunner" : "", c.op[0], c.op[1], c.op[2], c.shuffleSeed);
    for (int which = 0; which < 2; which++)
        for (auto& f : which == 0 ? c.groupFilters : c.nameFilters)
            o += sfmt(" %s%s%s \"%s\"", f.invert ? "-x" : "-", f.strict ? "s" : "", which == 0 ? "g" : "n", P(f.value).c_str());
    for (auto& t : c.tests) {
        for (int w = 0; w < 2; w++) if (t.pluginKind[w] >= 0) o += sfmt(" [plugin-%s:%s(\"%s\")]", w ? "post" : "pre", t.pluginKind[w] ? "failure" : "print", P(t.pluginText[w]).c_str());
        o += sfmt(" %s(\"%s\", \"%s\" @\"%s\":%u", t.ignored ? "IGNORE_TEST" : "TEST", P(t.group).c_str(), P(t.name).c_str(), P(t.file).c_str(), t.line);
        for (int ph = 0; ph < 2; ph++)
            for (auto& s : ph == 0 ? t.body : t.teardown)
                o += s.strcmp ? sfmt(" STRCMP_EQUAL(\"%s\", \"%s\" @\"%s\":%u)", P(s.text).c_str(), P(s.op2).c_str(), P(s.file).c_str(), s.line)
                              : sfmt(" %s%s(\"%s\" @\"%s\":%u)", ph ? "teardown:" : "", s.exits ? "FAIL" : "softFAIL", P(s.text).c_str(), P(s.file).c_str(), s.line);
        o += ")";
    }
    return o;
}

int run_and_judge(const CaseM& c, bool useKnown, bool& nontrivial) {
    execute(c);
    std::string out(g_stream->data, g_stream->len);
    if (g_stream->overflow) { verif::observe("a stream exceeded the capture buffer; case not judged"); return 0; }
    std::vector<std::vector<const TestM*>> announced; announced.swap(g_announced);
    if (verif::g_explain) fprintf(stderr, "---- stream ----\n%s----\n", out.c_str());
    // every pass has to announce every test exactly once (the order of a pass is the registry's business, C02)
    V_CHECK(announced.size() == c.passes, "C20:pass-count", "%zu passes announced, %u requested", announced.size(), c.passes);
    for (auto& pass : announced) {
        std::vector<const TestM*> a(pass), b;
        for (auto& t : c.tests) b.push_back(&t);
        std::sort(a.begin(), a.end()); std::sort(b.begin(), b.end());
        V_CHECK(a == b, "C20:pass-announces-other-tests", "a pass announced %zu tests, the registry holds %zu (or not each exactly once)", pass.size(), c.tests.size());
    }
    size_t suites = 0;
    std::vector<Event> ev;
    for (auto& pass : announced) expected_events(c, pass, ev, suites);
    verif::cls(sfmt("passes:%u%s", c.passes, c.viaRunner ? "-via-CommandLineTestRunner" : "").c_str());
    for (auto& pass : announced)
        for (size_t i = 0; i < pass.size(); i++) if (pass[i]->name.empty()) {
            if (!selected(c, *pass[i])) continue;
            if (i == 0) verif::cls("empty-test-name:first-of-pass");
            if (i + 1 == pass.size()) verif::cls("empty-test-name:last-of-pass");
            if ((i == 0 || pass[i - 1]->group != pass[i]->group) && (i + 1 == pass.size() || pass[i + 1]->group != pass[i]->group)) verif::cls("empty-test-name:only-test-of-suite");
        }
    if (c.passes > 1) {
        bool sameEdge = false;
        for (size_t p = 0; p + 1 < announced.size(); p++) if (!announced[p].empty() && announced[p].back()->group == announced[p + 1].front()->group) sameEdge = true;
        if (sameEdge) verif::cls("pass-ends-and-next-starts-with-same-group");
    }
    for (uint32_t p = 0; p < c.passes; p++) if (c.op[p] && (!c.viaRunner || p == 0)) verif::cls(c.op[p] == 1 ? "order:reversed" : "order:shuffled");
    if (!c.groupFilters.empty() || !c.nameFilters.empty()) {
        verif::cls(sfmt("filters:%zu-group-%zu-name", c.groupFilters.size(), c.nameFilters.size()).c_str());
        size_t sel = 0; for (auto& t : c.tests) if (selected(c, t)) sel++;
        verif::cls(sel == 0 ? "filters:select-nothing" : (sel == c.tests.size() ? "filters:select-everything" : "filters:select-proper-subset"));
        bool emptyMid = false, emptyEdge = false;
        for (size_t i = 0; i < ev.size(); i++) if (ev[i].kind == Event::SuiteStart && ev[i].optional) { if (i == 0 || i + 2 >= ev.size()) emptyEdge = true; else emptyMid = true; }
        if (emptyMid) verif::cls("filters:whole-group-deselected-in-the-middle");
        if (emptyEdge) verif::cls("filters:whole-group-deselected-at-start-or-end");
    }
    bool special = false;
    const char* SPECIAL = "'|[]\r\n";
    for (auto& t : c.tests) {
        if (has_any(t.group, SPECIAL) || has_any(t.name, SPECIAL) || has_any(t.file, SPECIAL)) special = true;
        verif::cls(t.ignored ? (c.runIgnored ? "test:ignored-but-run" : "test:ignored") : "test:normal");
        if (t.name.empty()) {
            verif::cls("empty-test-name");
            if (t.ignored) verif::cls("empty-test-name:IGNORE_TEST");
            if (!t.body.empty() || !t.teardown.empty()) verif::cls("empty-test-name:failing");
        }
    }
    size_t nfailed = 0;
    for (auto& e : ev) if (e.kind == Event::TestFailed) {
        nfailed++;
        if (has_any(e.loc, SPECIAL) || has_any(e.details, SPECIAL)) special = true;
        verif::cls(e.outside ? "failure:outside-test-file-or-above-line" : "failure:inside-test");
        if (e.knownCondition) verif::cls("failure:outside+test-file-needs-escaping");
    }
    nontrivial = special || suites >= 2;
    {
        bool high = false;
        auto hb = [&](const std::string& x) { for (unsigned char ch : x) if (ch >= 0x80) high = true; };
        for (auto& t : c.tests) { hb(t.group); hb(t.name); hb(t.file); }
        for (auto& e : ev) if (e.kind == Event::TestFailed) { hb(e.loc); hb(e.details); }
        if (high) verif::cls("bytes-above-0x7F-in-a-value");
    }
    {
        size_t longest = 0;
        for (auto& t : c.tests) { longest = std::max(longest, std::max(t.group.size(), std::max(t.name.size(), t.file.size()))); }
        for (auto& e : ev) if (e.kind == Event::TestFailed) longest = std::max(longest, std::max(e.loc.size(), e.details.size()));
        verif::cls(longest >= 4096 ? "longest-string:4096+" : (longest >= 512 ? "longest-string:512..4095" : (longest >= 128 ? "longest-string:128..511" : (longest >= 64 ? "longest-string:64..127" : "longest-string:<64"))));
    }
    verif::cls(sfmt("suites:%zu", suites > 5 ? 5 : suites).c_str());
    if (nfailed >= 2) verif::cls("2+-failures");

    for (auto& e : ev) if (e.kind == Event::TestFailed && e.natural) verif::cls(e.details.size() >= 1000 ? "failure:natural-STRCMP-text>=1000" : "failure:natural-STRCMP-text");
    if (c.verbose) verif::cls("option:-v");
    if (c.color) verif::cls("option:-c");
    if (c.separateProcess) verif::cls("separate-process");
    for (auto& t : c.tests) {
        for (int w = 0; w < 2; w++) if (t.pluginKind[w] >= 0) verif::cls(sfmt("plugin:%s-action-%s", w ? "post" : "pre", t.pluginKind[w] ? "records-failure" : "prints").c_str());
        if (!t.prints.empty()) verif::cls("test-prints-lines");
    }
    // walk the lines
    size_t next = 0;   // index of the next expected event
    size_t pos = 0; size_t lineNo = 0;
    while (pos < out.size()) {
        size_t e = out.find('\n', pos);
        std::string line = out.substr(pos, e == std::string::npos ? std::string::npos : e - pos);
        bool terminated = e != std::string::npos;
        pos = terminated ? e + 1 : out.size();
        lineNo++;
        size_t at = line.find("##teamcity[");
        if (at == std::string::npos) continue;   // ordinary console text (the summary at the end of the run)
        // a group none of whose tests is selected: either an empty suite (start directly followed by finish) or nothing
        while (next < ev.size() && ev[next].optional) {
            bool emptyPair = false;
            if (line.compare(0, 28, "##teamcity[testSuiteStarted ") == 0) {
                size_t q = pos;   // the next line that holds a message
                while (q < out.size()) {
                    size_t e2 = out.find('\n', q);
                    std::string l2 = out.substr(q, e2 == std::string::npos ? std::string::npos : e2 - q);
                    if (l2.find("##teamcity[") != std::string::npos) { emptyPair = l2.compare(0, 29, "##teamcity[testSuiteFinished ") == 0; break; }
                    if (e2 == std::string::npos) break;
                    q = e2 + 1;
                }
            }
            if (ev[next].kind == Event::SuiteStart && !emptyPair) { next += 2; continue; }   // nothing was printed for it
            if (ev[next].kind == Event::SuiteStart) verif::cls("deselected-group:printed-as-empty-suite");
            break;   // judge the pair like any other start / finish
        }
        const Event* want = next < ev.size() ? &ev[next] : nullptr;
        bool knownHere = want && want->kind == Event::TestFailed && want->knownCondition;
        if (knownHere && useKnown && line.compare(0, 22, "##teamcity[testFailed ") == 0 && verif::known(KEY_FILE)) { next++; continue; }   // known finding: this one message is not decoded
        const char* over = knownHere ? KEY_FILE : nullptr;
#define TC(cond, sig, ...) do { if (!(cond)) return verif::fail(over ? over : (sig), __VA_ARGS__); } while (0)
#define TN(cond, sig, ...) do { if (!(cond)) return verif::fail((sig), __VA_ARGS__); } while (0)   // not a consequence of an unescaped test file name
        TC(at == 0, "C20:message-not-on-own-line", "line %zu: a service message starts at column %zu: \"%s\"", lineNo, at + 1, W(line, at).c_str());
        TC(terminated, "C20:message-not-on-own-line", "line %zu: the stream ends inside a message: \"%s\"", lineNo, W(line, line.size()).c_str());
        Msg m; std::string err; size_t errcol = 0;
        bool ok = parse_message(line, m, err, errcol);
        TC(ok, "C20:message-malformed", "line %zu does not parse as one service message (%s): \"%s\"%s", lineNo, err.c_str(), W(line, errcol).c_str(),
           want ? sfmt("; expected %s for \"%s\"", kind_name(want->kind), P(want->name).c_str()).c_str() : "");
        TN(want != nullptr, "C20:extra-message", "line %zu: message %s after the last expected one: \"%s\"", lineNo, m.name.c_str(), W(line, 0).c_str());
        if (m.name != kind_name(want->kind)) {
            const char* sig = "C20:test-pairing";
            if (want->kind == Event::SuiteStart || want->kind == Event::SuiteFinish || m.name == "testSuiteStarted" || m.name == "testSuiteFinished") sig = "C20:suite-pairing";
            if (want->kind == Event::TestIgnored || m.name == "testIgnored") sig = "C20:ignored-flag";
            if (want->kind == Event::TestFailed || m.name == "testFailed") sig = "C20:failure-placement";
            TN(false, sig, "line %zu: got %s \"%s\" where %s for \"%s\" is due", lineNo, m.name.c_str(), m.attr("name") ? P(*m.attr("name")).c_str() : "", kind_name(want->kind), P(want->name).c_str());
        }
        const std::string* a = m.attr("name");
        const char* nsig = (want->kind == Event::SuiteStart || want->kind == Event::SuiteFinish) ? "C20:suite-name" : (want->kind == Event::TestFailed ? "C20:failed-test-name" : "C20:test-name");
        TN(a && *a == want->name, nsig, "line %zu: %s name decodes to \"%s\", expected \"%s\" (%s)", lineNo, m.name.c_str(), a ? P(*a).c_str() : "(absent)", P(want->name).c_str(),
           a ? D(*a, want->name).c_str() : "");
        if (want->kind == Event::TestFailed) {
            a = m.attr("message");
            bool plain = a && *a == want->loc, prefixed = a && *a == want->locWithPrefix;
            TC(plain || prefixed, "C20:failure-location", "line %zu: testFailed message decodes to \"%s\", expected \"%s\" or \"%s\"", lineNo, a ? P(*a).c_str() : "(absent)",
               P(want->loc).c_str(), P(want->locWithPrefix).c_str());
            verif::cls(prefixed ? "location:with-TEST-failed-prefix" : "location:plain");
            a = m.attr("details");
            TN(a && *a == want->details, "C20:failure-details", "line %zu: testFailed details decode to \"%s\", expected \"%s\" (%s)", lineNo, a ? P(*a).c_str() : "(absent)", P(want->details).c_str(),
               a ? D(*a, want->details).c_str() : "");
        }
        if (want->kind == Event::TestFinish) {
            a = m.attr("duration");
            TN(a && !a->empty() && a->find_first_not_of("0123456789") == std::string::npos, "C20:duration", "line %zu: duration is \"%s\"", lineNo, a ? P(*a).c_str() : "(absent)");
        }
#undef TC
#undef TN
        next++;
    }
    while (next < ev.size() && ev[next].optional) next++;
    if (next < ev.size()) {
        const Event& w = ev[next];
        const char* sig = (w.kind == Event::SuiteStart || w.kind == Event::SuiteFinish) ? "C20:suite-pairing" : (w.kind == Event::TestIgnored ? "C20:ignored-flag" : (w.kind == Event::TestFailed ? "C20:failure-placement" : "C20:test-pairing"));
        return verif::fail(sig, "the stream ends while %s for \"%s\" is still due (%zu of %zu messages seen)", kind_name(w.kind), P(w.name).c_str(), next, ev.size());
    }
    return 0;
}

}  // namespace

extern "C" const char* verif_property(void) { return "C20"; }
extern "C" void verif_init(void) {
    verif::install_fake_time();
    g_stream = (SharedStream*)mmap(nullptr, sizeof(SharedStream) + STREAM_MAX, PROT_READ | PROT_WRITE, MAP_SHARED | MAP_ANONYMOUS, -1, 0);
    if (g_stream == MAP_FAILED) { perror("mmap"); abort(); }
    PlatformSpecificFPuts = seam_fputs;
    PlatformSpecificFlush = seam_flush;
}
extern "C" int verif_case(const uint8_t* data, size_t size) {
    Reader r(data, size);
    CaseM c = decode(r);
    if (verif::g_explain) fprintf(stderr, "case: %s\n", render(c).c_str());
    bool nontrivial = false;
    int rc = run_and_judge(c, true, nontrivial);
    verif::note_case(nontrivial, r.h, [&] { return render(c); });
    return rc;
}
extern "C" int verif_known_repro(const char* key) {
    if (std::string(key) != KEY_FILE) return -1;
    // one test in file "it's|[x].cpp" that fails in another file
    CaseM c; TestM t;
    t.group = "g"; t.name = "t"; t.file = "it's|[x].cpp"; t.line = 10;
    t.body.push_back(Step{true, "boom", "helper.cpp", 20});
    c.tests.push_back(t);
    bool was = verif::g_counting; verif::g_counting = false;
    bool nt = false;
    int rc = run_and_judge(c, false, nt);
    verif::g_counting = was;
    if (rc) fprintf(stderr, "reproduced: %s\n", verif::g_fail_msg.c_str());
    return rc ? 1 : 0;
}
