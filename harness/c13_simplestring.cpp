// C13 — SimpleString and its free helpers equal their textbook meaning, memory-safely.
// Decoder: 1..10 operations over three SimpleString slots mirrored by std::string models.
// Oracle: std::string / libc reference per operation; recording string allocator (exactly-once, same size);
//         ASan/UBSan for reads/writes outside the buffers; watchdog for termination.
#include "common.h"
#include <map>
#include <limits.h>
#include <math.h>

using verif::Reader;
using verif::sfmt;

namespace {

struct RecAlloc : TestMemoryAllocator {
    std::map<char*, size_t> live;
    bool bad = false; std::string badmsg;
    RecAlloc() : TestMemoryAllocator("verif string allocator", "malloc", "free") {}
    char* alloc_memory(size_t size, const char*, size_t) CPPUTEST_OVERRIDE {
        char* p = (char*)malloc(size ? size : 1);
        live[p] = size;
        return p;
    }
    void free_memory(char* memory, size_t size, const char*, size_t) CPPUTEST_OVERRIDE {
        if (memory == NULLPTR) return;
        auto it = live.find(memory);
        if (it == live.end()) { bad = true; badmsg = sfmt("buffer %p returned to the string allocator but not outstanding (double or foreign release)", (void*)memory); return; }
        if (it->second != size) { bad = true; badmsg = sfmt("buffer requested with size %zu returned with size %zu", it->second, size); }
        live.erase(it);
        free(memory);
    }
};
RecAlloc* g_alloc;

const size_t NPOS = SimpleString::npos;

std::string gen_str(Reader& r, const std::string* models) {
    switch (r.below(7)) {
    default:
    case 0: return r.str(6, "ab");
    case 1: return r.str(8, "abAB");
    case 2: return r.bytes(12);
    case 3: { const std::string& m = models[r.below(3)]; if (m.empty()) return ""; size_t p = r.below((uint32_t)m.size()); size_t l = 1 + r.below(4); return m.substr(p, l); }
    case 4: { std::string u = r.str(3, "abc"); if (u.empty()) u = "x"; size_t reps = r.below(110); std::string s; for (size_t i = 0; i < reps && s.size() < 300; i++) s += u; return s; }
    case 5: { static const char a[] = "\x01\x07\n\r\t\x1f\x7f\x80\xfe\xff a\\"; return r.str(8, a, sizeof a - 1); }
    case 6: return r.str(5, "0123456789 -+\t");
    }
}
size_t gen_pos(Reader& r, size_t len) {
    switch (r.below(8)) {
    default:
    case 0: return 0;
    case 1: return 1;
    case 2: return len ? len - 1 : 0;
    case 3: return len;
    case 4: return len + 1;
    case 5: return NPOS;
    case 6: return r.below((uint32_t)len + 4);
    case 7: return NPOS - r.below(3);
    }
}
bool has_special(const std::string& s) { for (unsigned char c : s) if (c >= 0x80 || c < 0x20 || c == 0x7f) return true; return false; }
bool self_overlapping(const std::string& p) {   // has a proper border
    for (size_t k = 1; k < p.size(); k++) if (p.compare(0, p.size() - k, p, k, p.size() - k) == 0) return true;
    return false;
}
char lower(char c) { return (c >= 'A' && c <= 'Z') ? (char)(c + 32) : c; }
std::string lower(const std::string& s) { std::string o = s; for (auto& c : o) c = lower(c); return o; }
int sgn(int v) { return v < 0 ? -1 : (v > 0 ? 1 : 0); }
size_t count_overlapping(const std::string& s, const std::string& p) { size_t n = 0, pos = 0; while ((pos = s.find(p, pos)) != std::string::npos) { n++; pos++; } return n; }
size_t count_disjoint(const std::string& s, const std::string& p) { size_t n = 0, pos = 0; while ((pos = s.find(p, pos)) != std::string::npos) { n++; pos += p.size(); } return n; }
std::string replace_all(const std::string& s, const std::string& from, const std::string& to) {
    std::string o; size_t i = 0;
    while (i < s.size()) { if (s.compare(i, from.size(), from) == 0) { o += to; i += from.size(); } else o.push_back(s[i++]); }
    return o;
}
// reference rendering of printable(): control bytes with their documented escapes; a byte >= 0x80 either raw or \xNN with its true value
bool printable_ok(const std::string& in, const std::string& out) {
    static const char* shortc = "abtnvfr";
    size_t j = 0;
    for (unsigned char c : in) {
        if (c >= 7 && c <= 13) { if (out.compare(j, 2, std::string("\\") + shortc[c - 7]) != 0) return false; j += 2; }
        else if (c < 0x20 || c == 0x7f) { if (out.compare(j, 4, sfmt("\\x%02X", c)) != 0) return false; j += 4; }
        else if (c >= 0x80) {
            if (j < out.size() && (unsigned char)out[j] == c) j += 1;
            else if (out.compare(j, 4, sfmt("\\x%02X", c)) == 0) j += 4;
            else return false;
        }
        else { if (j >= out.size() || out[j] != (char)c) return false; j++; }
    }
    return j == out.size();
}
std::string ordinal(unsigned n) {
    const char* suf = "th";
    unsigned m100 = n % 100, m10 = n % 10;
    if (m100 < 11 || m100 > 13) { if (m10 == 1) suf = "st"; else if (m10 == 2) suf = "nd"; else if (m10 == 3) suf = "rd"; }
    return sfmt("%u%s", n, suf);
}
std::string hexbytes(const unsigned char* p, size_t n) { std::string o; for (size_t i = 0; i < n; i++) { if (i) o += " "; o += sfmt("%02X", p[i]); } return o; }

#define SAME(ss, model, sig) do { const SimpleString& ss_ = (ss); const char* cs_ = ss_.asCharString(); \
    if (cs_ == NULLPTR || std::string(cs_) != (model)) return verif::fail(sig, "%s: got \"%s\" expected \"%s\" [%s]", sig, cs_ ? verif::printable(cs_).substr(0,400).c_str() : "(NULL)", verif::printable(model).substr(0,400).c_str(), ctx.c_str()); } while (0)

int run_case(Reader& r, bool& nontrivial, std::string& desc) {
    SimpleString* s[3] = { new SimpleString(), new SimpleString(), new SimpleString() };
    std::string m[3];
    struct Cleanup { SimpleString** s; ~Cleanup() { for (int i = 0; i < 3; i++) delete s[i]; } } cleanup{s};
    int nops = 1 + (int)r.below(10);
    int slot_ops[3] = {0, 0, 0};
    SimpleStringCollection shared_col;   // one collection reused by the split operations of the case (state must not carry over)
    int shared_uses = 0;
    for (int op = 0; op < nops && (op == 0 || !r.empty()); op++) {   // an exhausted input ends the sequence
        int i = (int)r.below(3), j = (int)r.below(3), k = (int)r.below(3);
        uint32_t kind = r.below(34);
        std::string ctx = sfmt("op#%d kind=%u i=%d j=%d", op, kind, i, j);
        { static const char* kn[] = {"construct","assign","append","append-cstr","plus","repeat","equals","equalsNoCase","contains","startsEnds","count","find","at","subString","subString2","fromTill","split","replace-char","replace","lowerCase","printable","pad","copyToBuffer","size","StrCmp","StrNCpy","StrStr","ToLower-MemCmp","AtoI-AtoU","int-formatters","ordinal","binary","maskedBits","format-double"}; verif::cls(kn[kind]); }
        slot_ops[i]++;
        if (slot_ops[i] >= 3) nontrivial = true;
        if (verif::g_explain) fprintf(stderr, "  %s m[i]=\"%s\" m[j]=\"%s\"\n", ctx.c_str(), verif::printable(m[i]).c_str(), verif::printable(m[j]).c_str());
        switch (kind) {
        case 0: { std::string v = gen_str(r, m); if (has_special(v)) nontrivial = true; *s[i] = SimpleString(v.c_str()); m[i] = v; desc += sfmt("s%d=\"%s\";", i, verif::printable(v).substr(0, 40).c_str()); SAME(*s[i], m[i], "C13:construct"); break; }
        case 1: { *s[i] = *s[j]; m[i] = m[j]; desc += sfmt("s%d=s%d;", i, j); SAME(*s[i], m[i], "C13:assign"); break; }
        case 2: { *s[i] += *s[j]; m[i] += std::string(m[j]); desc += sfmt("s%d+=s%d;", i, j); if (m[i].size() > 2000) { *s[i] = ""; m[i] = ""; } SAME(*s[i], m[i], "C13:append"); break; }
        case 3: { std::string v = gen_str(r, m); *s[i] += v.c_str(); m[i] += v; desc += sfmt("s%d+=\"..\";", i); if (m[i].size() > 2000) { *s[i] = ""; m[i] = ""; } SAME(*s[i], m[i], "C13:append-cstr"); break; }
        case 4: { SimpleString t = *s[i] + *s[j]; std::string mt = m[i] + m[j]; SAME(t, mt, "C13:plus"); if (mt.size() <= 2000) { *s[k] = t; m[k] = mt; } desc += sfmt("s%d=s%d+s%d;", k, i, j); break; }
        case 5: { std::string v = gen_str(r, m); size_t cnt = r.below(6); if (v.size() * cnt > 1500) cnt = 1; SimpleString t(v.c_str(), cnt); std::string mt; for (size_t q = 0; q < cnt; q++) mt += v; SAME(t, mt, "C13:repeat"); *s[i] = t; m[i] = mt; desc += sfmt("s%d=rep(%zu);", i, cnt); break; }
        case 6: { bool e = (*s[i] == *s[j]), ne = (*s[i] != *s[j]); V_CHECK(e == (m[i] == m[j]) && ne == !e, "C13:equals", "operator==/!= wrong for \"%s\" vs \"%s\"", verif::printable(m[i]).c_str(), verif::printable(m[j]).c_str()); desc += "eq;"; break; }
        case 7: { bool e = s[i]->equalsNoCase(*s[j]); V_CHECK(e == (lower(m[i]) == lower(m[j])), "C13:equalsNoCase", "equalsNoCase wrong for \"%s\" vs \"%s\"", verif::printable(m[i]).c_str(), verif::printable(m[j]).c_str()); desc += "eqnc;"; break; }
        case 8: { std::string v = gen_str(r, m); SimpleString pv(v.c_str());
                  bool c1 = s[i]->contains(pv), c2 = s[i]->containsNoCase(pv);
                  V_CHECK(c1 == (m[i].find(v) != std::string::npos), "C13:contains", "contains wrong: \"%s\" in \"%s\" -> %d", verif::printable(v).c_str(), verif::printable(m[i]).c_str(), c1);
                  V_CHECK(c2 == (lower(m[i]).find(lower(v)) != std::string::npos), "C13:containsNoCase", "containsNoCase wrong: \"%s\" in \"%s\" -> %d", verif::printable(v).c_str(), verif::printable(m[i]).c_str(), c2);
                  desc += "contains;"; break; }
        case 9: { std::string v = gen_str(r, m); SimpleString pv(v.c_str());
                  bool a = s[i]->startsWith(pv), b = s[i]->endsWith(pv);
                  bool ma = m[i].compare(0, v.size(), v) == 0 && m[i].size() >= v.size();
                  bool mb = m[i].size() >= v.size() && m[i].compare(m[i].size() - v.size(), v.size(), v) == 0;
                  V_CHECK(a == ma, "C13:startsWith", "startsWith(\"%s\") on \"%s\" -> %d", verif::printable(v).c_str(), verif::printable(m[i]).c_str(), a);
                  V_CHECK(b == mb, "C13:endsWith", "endsWith(\"%s\") on \"%s\" -> %d", verif::printable(v).c_str(), verif::printable(m[i]).c_str(), b);
                  desc += "startsEnds;"; break; }
        case 10: { std::string v = gen_str(r, m); if (v.empty()) v = "a";   // empty pattern: no textbook count
                   if (self_overlapping(v)) nontrivial = true;
                   size_t c = s[i]->count(v.c_str());
                   size_t co = count_overlapping(m[i], v), cd = count_disjoint(m[i], v);
                   V_CHECK(c == co || c == cd, "C13:count", "count(\"%s\") in \"%s\" -> %zu (expected %zu%s)", verif::printable(v).c_str(), verif::printable(m[i]).c_str(), c, cd, co != cd ? sfmt(" or %zu", co).c_str() : "");
                   desc += "count;"; break; }
        case 11: { char ch = (char)(1 + r.below(255)); if (r.flag() && !m[i].empty()) ch = m[i][r.below((uint32_t)m[i].size())];
                   size_t from = gen_pos(r, m[i].size());
                   size_t f1 = s[i]->find(ch), f2 = s[i]->findFrom(from, ch);
                   size_t m1 = m[i].find(ch), m2 = from > m[i].size() ? std::string::npos : m[i].find(ch, from);
                   V_CHECK(f1 == (m1 == std::string::npos ? NPOS : m1), "C13:find", "find(%d) in \"%s\" -> %zu", ch, verif::printable(m[i]).c_str(), f1);
                   V_CHECK(f2 == (m2 == std::string::npos ? NPOS : m2), "C13:findFrom", "findFrom(%zu,%d) in \"%s\" -> %zu", from, ch, verif::printable(m[i]).c_str(), f2);
                   if (from > m[i].size()) nontrivial = true;
                   desc += sfmt("findFrom(%zu);", from); break; }
        case 12: { size_t pos = r.below((uint32_t)m[i].size() + 1); char c = s[i]->at(pos); V_CHECK(c == (pos < m[i].size() ? m[i][pos] : 0), "C13:at", "at(%zu) wrong", pos); desc += "at;"; break; }
        case 13: { size_t b = gen_pos(r, m[i].size());
                   if (m[i].empty() && b > 0) nontrivial = true;
                   SimpleString t = s[i]->subString(b);
                   std::string mt = b >= m[i].size() ? "" : m[i].substr(b);
                   ctx += sfmt(" subString(%zu) of \"%s\"", b, verif::printable(m[i]).substr(0, 60).c_str());
                   SAME(t, mt, "C13:subString"); *s[k] = t; m[k] = mt; desc += sfmt("s%d=s%d.subString(%zu);", k, i, b); break; }
        case 14: { size_t b = gen_pos(r, m[i].size()), a = gen_pos(r, m[i].size());
                   if (m[i].empty() && b > 0) nontrivial = true;
                   SimpleString t = s[i]->subString(b, a);
                   std::string mt = b >= m[i].size() ? "" : m[i].substr(b, a);
                   ctx += sfmt(" subString(%zu,%zu) of \"%s\"", b, a, verif::printable(m[i]).substr(0, 60).c_str());
                   SAME(t, mt, "C13:subString2"); *s[k] = t; m[k] = mt; desc += sfmt("s%d=s%d.subString(%zu,%zu);", k, i, b, a); break; }
        case 15: { char c1 = (char)(1 + r.below(255)), c2 = (char)(1 + r.below(255));
                   if (!m[i].empty()) { if (r.flag()) c1 = m[i][r.below((uint32_t)m[i].size())]; if (r.flag()) c2 = m[i][r.below((uint32_t)m[i].size())]; }
                   SimpleString t = s[i]->subStringFromTill(c1, c2);
                   std::string mt; size_t bp = m[i].find(c1);
                   if (bp != std::string::npos) { size_t ep = m[i].find(c2, bp); mt = ep == std::string::npos ? m[i].substr(bp) : m[i].substr(bp, ep - bp); }
                   ctx += sfmt(" subStringFromTill(%d,%d) of \"%s\"", c1, c2, verif::printable(m[i]).substr(0, 60).c_str());
                   SAME(t, mt, "C13:subStringFromTill"); desc += "fromTill;"; break; }
        case 16: { std::string d = gen_str(r, m); if (d.empty()) d = ",";
                   if (r.chance(2, 3)) d = d.substr(0, 1);
                   SimpleStringCollection fresh_col;
                   bool reuse = r.below(3) != 0;
                   if (reuse && r.below(6) == 1) { size_t na = r.below(6); shared_col.allocate(na); shared_uses++;     // direct allocate: na default-constructed (empty) strings
                       V_CHECK(shared_col.size() == na, "C13:collection-allocate", "allocate(%zu) left size() == %zu", na, shared_col.size());
                       for (size_t q = 0; q < na; q++) V_CHECK(shared_col[q].size() == 0, "C13:collection-allocate", "allocate(%zu): element %zu is not empty", na, q); }
                   SimpleStringCollection& col = reuse ? shared_col : fresh_col;
                   if (reuse) { if (shared_uses++ > 0) nontrivial = true; }
                   s[i]->split(d.c_str(), col);
                   if (d.size() == 1) {   // value oracle: tokens keep their delimiter and concatenate to the input
                       std::vector<std::string> exp; std::string cur;
                       for (char c : m[i]) { cur.push_back(c); if (c == d[0]) { exp.push_back(cur); cur.clear(); } }
                       if (!cur.empty() || m[i].empty()) exp.push_back(cur);
                       V_CHECK(col.size() == exp.size(), "C13:split", "split('%s') of \"%s\": %zu tokens, expected %zu", verif::printable(d).c_str(), verif::printable(m[i]).c_str(), col.size(), exp.size());
                       for (size_t q = 0; q < exp.size(); q++) { ctx += sfmt(" split token %zu", q); SAME(col[q], exp[q], "C13:split"); }
                   } else {
                       for (size_t q = 0; q < col.size(); q++) (void)col[q].size();
                   }
                   SAME(col[col.size() + 3], std::string(), "C13:split-index");
                   desc += sfmt("split(%zu%s);", d.size(), reuse ? ",reused" : ""); break; }
        case 17: { char to = (char)(1 + r.below(255)), with = (char)(1 + r.below(255)); if (!m[i].empty() && r.flag()) to = m[i][r.below((uint32_t)m[i].size())];
                   // replacing by NUL shortens the string in place (the buffer keeps its size): everything after must go by the new length
                   bool by_nul = !r.empty() && r.below(4) == 1; if (by_nul) { with = 0; verif::cls("replace-char-by-NUL (shortened in place)"); }
                   s[i]->replace(to, with); for (auto& c : m[i]) if (c == to) c = with;
                   if (by_nul) {
                       std::string before = m[i]; m[i] = m[i].c_str();
                       // right away: every reader must go by the new length, not by what is left in the buffer behind the terminator
                       std::string stale = before.size() > m[i].size() ? before.substr(m[i].size() + 1) : std::string();   // bytes that used to follow
                       stale = stale.c_str();                                                                                  // (as a C string: up to the next NUL)
                       size_t k = m[i].empty() ? 0 : r.below((uint32_t)m[i].size() + 1);
                       V_CHECK(s[i]->size() == m[i].size(), "C13:shortened-in-place", "size() %zu after replace by NUL, expected %zu", s[i]->size(), m[i].size());
                       V_CHECK(s[i]->endsWith(m[i].substr(k).c_str()), "C13:shortened-in-place", "\"%s\" does not end with its own tail \"%s\"", verif::printable(m[i]).c_str(), verif::printable(m[i].substr(k)).c_str());
                       if (!stale.empty()) { bool want = m[i].size() >= stale.size() && m[i].compare(m[i].size() - stale.size(), stale.size(), stale) == 0;
                           V_CHECK(s[i]->endsWith(stale.c_str()) == want, "C13:shortened-in-place", "endsWith(\"%s\") on \"%s\" (shortened in place) -> %d", verif::printable(stale).c_str(), verif::printable(m[i]).c_str(), !want); }
                       { SimpleString longer((m[i] + "x" + m[i]).c_str()); V_CHECK(longer.endsWith(*s[i]), "C13:shortened-in-place", "a string ending in the shortened one does not end with it"); }
                       { SimpleString cat = *s[i] + "z"; SAME(cat, m[i] + "z", "C13:shortened-in-place"); }
                       { // split must treat it exactly like a freshly built string of the same value (the split operation itself is judged by kind 16)
                         char dl[2] = {m[i].empty() ? 'x' : m[i][r.below((uint32_t)m[i].size())], 0};
                         SimpleStringCollection c2, c3; SimpleString fresh(m[i].c_str()); s[i]->split(dl, c2); fresh.split(dl, c3);
                         V_CHECK(c2.size() == c3.size(), "C13:shortened-in-place", "split('%s') of the shortened string: %zu tokens, a fresh equal string gives %zu", verif::printable(dl).c_str(), c2.size(), c3.size());
                         for (size_t q = 0; q < c2.size(); q++) V_CHECK(c2[q] == c3[q], "C13:shortened-in-place", "split token %zu differs from that of a fresh equal string", q); }
                   }
                   SAME(*s[i], m[i], "C13:replace-char"); desc += by_nul ? "replc0;" : "replc;"; break; }
        case 18: { std::string to = gen_str(r, m), with = gen_str(r, m);
                   if (with.size() > 20) with = with.substr(0, 20);
                   if (to.empty()) {
                       // empty pattern: no textbook value; the operation must terminate and stay inside its buffers
                       if (verif::known("C13:replace-empty-pattern")) break;
                       nontrivial = true;
                       s[i]->replace("", with.c_str());
                       const char* cs = s[i]->asCharString(); V_CHECK(cs != NULLPTR, "C13:replace-empty-pattern", "NULL buffer");
                       m[i] = cs; desc += "repl('');"; break;
                   }
                   if (self_overlapping(to) || count_overlapping(m[i], to) != count_disjoint(m[i], to)) nontrivial = true;
                   ctx += sfmt(" \"%s\".replace(\"%s\",\"%s\")", verif::printable(m[i]).substr(0, 60).c_str(), verif::printable(to).c_str(), verif::printable(with).c_str());
                   s[i]->replace(to.c_str(), with.c_str()); m[i] = replace_all(m[i], to, with);
                   if (m[i].size() > 2000) { *s[i] = ""; m[i] = ""; }
                   SAME(*s[i], m[i], "C13:replace"); desc += "repl;"; break; }
        case 19: { SimpleString t = s[i]->lowerCase(); SAME(t, lower(m[i]), "C13:lowerCase"); desc += "lower;"; break; }
        case 20: { SimpleString t = s[i]->printable(); const char* cs = t.asCharString();
                   if (has_special(m[i])) nontrivial = true;
                   V_CHECK(cs && printable_ok(m[i], cs), "C13:printable", "printable(\"%s\") -> \"%s\"", verif::printable(m[i]).c_str(), cs ? verif::printable(cs).c_str() : "(NULL)");
                   SimpleString t2 = PrintableStringFromOrNull(m[i].c_str()); V_CHECK(std::string(t2.asCharString()) == cs, "C13:PrintableStringFromOrNull", "differs from printable()");
                   SimpleString t3 = PrintableStringFromOrNull(NULLPTR); SAME(t3, std::string("(null)"), "C13:PrintableStringFromOrNull");
                   desc += "printable;"; break; }
        case 21: { if (i == j) j = (i + 1) % 3; char ch = (char)(1 + r.below(255));
                   SimpleString::padStringsToSameLength(*s[i], *s[j], ch);
                   if (m[i].size() < m[j].size()) m[i] = std::string(m[j].size() - m[i].size(), ch) + m[i];
                   else m[j] = std::string(m[i].size() - m[j].size(), ch) + m[j];
                   SAME(*s[i], m[i], "C13:pad"); SAME(*s[j], m[j], "C13:pad"); desc += "pad;"; break; }
        case 22: { size_t bs = r.below(3) == 0 ? r.below(4) : r.below((uint32_t)m[i].size() + 4);
                   std::vector<char> buf(bs + 8, (char)0x5a);
                   s[i]->copyToBuffer(bs == 0 && r.flag() ? NULLPTR : buf.data(), bs);
                   if (bs) { size_t n = std::min(bs - 1, m[i].size());
                       V_CHECK(memcmp(buf.data(), m[i].data(), n) == 0 && buf[n] == 0, "C13:copyToBuffer", "copyToBuffer(%zu) of \"%s\" wrong content", bs, verif::printable(m[i]).c_str());
                       for (size_t q = n + 1; q < buf.size(); q++) V_CHECK(buf[q] == 0x5a, "C13:copyToBuffer", "copyToBuffer(%zu) wrote at offset %zu beyond its contract", bs, q);
                   } else for (size_t q = 0; q < buf.size(); q++) V_CHECK(buf[q] == 0x5a, "C13:copyToBuffer", "copyToBuffer(0) wrote");
                   desc += sfmt("copyToBuffer(%zu);", bs); break; }
        case 23: { V_CHECK(s[i]->size() == m[i].size() && s[i]->isEmpty() == m[i].empty() && SimpleString::StrLen(m[i].c_str()) == m[i].size(), "C13:size", "size/isEmpty/StrLen wrong"); desc += "size;";
                   // operands that alias the string's own buffer (appended here so that earlier inputs keep their meaning): the textbook
                   // result is the one computed from the operand VALUES before the operation
                   if (r.empty() || r.below(2) == 0) break;
                   std::string v = m[i]; verif::cls("aliasing-operand");
                   switch (r.below(7)) {
                   case 0: *s[i] += *s[i]; m[i] = v + v; desc += "s+=s;"; break;
                   case 1: *s[i] = *s[i]; desc += "s=s;"; break;
                   case 2: { size_t k = r.below((uint32_t)v.size() + 1); *s[i] += s[i]->asCharString() + k; m[i] = v + v.substr(k); desc += "s+=tail(s);"; break; }
                   case 3: { size_t k = r.below((uint32_t)v.size() + 1); std::string to = v.substr(k); if (to.empty()) break;     // pattern = own suffix
                             std::string with = gen_str(r, m); if (with.size() > 20) with = with.substr(0, 20);
                             s[i]->replace(s[i]->asCharString() + k, with.c_str()); m[i] = replace_all(v, to, with); desc += "repl(tail(s),w);"; break; }
                   case 4: { size_t k = r.below((uint32_t)v.size() + 1); std::string with = v.substr(k); if (with.size() > 20) break;  // replacement = own suffix
                             std::string to = gen_str(r, m); if (to.empty()) break;
                             s[i]->replace(to.c_str(), s[i]->asCharString() + k); m[i] = replace_all(v, to, with); desc += "repl(t,tail(s));"; break; }
                   case 5: SimpleString::padStringsToSameLength(*s[i], *s[i], 'p'); desc += "pad(s,s);"; break;
                   default: { size_t k = r.below((uint32_t)v.size() + 1); *s[i] = s[i]->asCharString() + k; m[i] = v.substr(k); desc += "s=tail(s);"; break; }
                   }
                   if (m[i].size() > 2000) { *s[i] = ""; m[i] = ""; }
                   SAME(*s[i], m[i], "C13:aliasing-operand");
                   break; }
        case 24: { int a = SimpleString::StrCmp(m[i].c_str(), m[j].c_str()); V_CHECK(sgn(a) == sgn(strcmp(m[i].c_str(), m[j].c_str())), "C13:StrCmp", "StrCmp sign wrong for \"%s\" \"%s\"", verif::printable(m[i]).c_str(), verif::printable(m[j]).c_str());
                   size_t n = gen_pos(r, std::min(m[i].size(), m[j].size()));
                   int b = SimpleString::StrNCmp(m[i].c_str(), m[j].c_str(), n); V_CHECK(sgn(b) == sgn(strncmp(m[i].c_str(), m[j].c_str(), n)), "C13:StrNCmp", "StrNCmp(n=%zu) sign wrong for \"%s\" \"%s\"", n, verif::printable(m[i]).c_str(), verif::printable(m[j]).c_str());
                   desc += sfmt("StrNCmp(%zu);", n); break; }
        case 25: { size_t n = r.below((uint32_t)m[i].size() + 4); std::vector<char> d1(n + 4, (char)0x5a);
                   char* ret = SimpleString::StrNCpy(n == 0 && r.flag() ? NULLPTR : d1.data(), m[i].c_str(), n);
                   (void)ret;
                   size_t must = std::min(n, m[i].size() + 1);
                   V_CHECK(memcmp(d1.data(), m[i].c_str(), must) == 0, "C13:StrNCpy", "StrNCpy(n=%zu) copied wrong bytes from \"%s\"", n, verif::printable(m[i]).c_str());
                   for (size_t q = must; q < n; q++) V_CHECK(d1[q] == 0x5a || d1[q] == 0, "C13:StrNCpy", "StrNCpy(n=%zu) wrote garbage at %zu", n, q);
                   for (size_t q = n; q < d1.size(); q++) V_CHECK(d1[q] == 0x5a, "C13:StrNCpy", "StrNCpy(n=%zu) wrote past n at %zu", n, q);
                   desc += sfmt("StrNCpy(%zu);", n); break; }
        case 26: { std::string v = gen_str(r, m); const char* a = SimpleString::StrStr(m[i].c_str(), v.c_str()); const char* b = strstr(m[i].c_str(), v.c_str());
                   V_CHECK(a == b, "C13:StrStr", "StrStr(\"%s\",\"%s\") offset %ld expected %ld", verif::printable(m[i]).c_str(), verif::printable(v).c_str(), a ? (long)(a - m[i].c_str()) : -1L, b ? (long)(b - m[i].c_str()) : -1L);
                   desc += "StrStr;"; break; }
        case 27: { char c = (char)r.below(256); V_CHECK(SimpleString::ToLower(c) == lower(c), "C13:ToLower", "ToLower(%d)", c);
                   size_t n = r.below((uint32_t)std::min(m[i].size(), m[j].size()) + 2); // both buffers have size()+1 bytes
                   int a = SimpleString::MemCmp(m[i].c_str(), m[j].c_str(), n); V_CHECK(sgn(a) == sgn(memcmp(m[i].c_str(), m[j].c_str(), n)), "C13:MemCmp", "MemCmp(n=%zu) sign wrong", n);
                   V_CHECK(SimpleString::MemCmp(NULLPTR, NULLPTR, 0) == 0, "C13:MemCmp", "MemCmp(NULL,NULL,0)");
                   desc += "ToLower/MemCmp;"; break; }
        case 28: { // AtoI / AtoU on representable values (C's own precondition)
                   static const char* ws[] = {"", " ", "\t", "\n ", " \v\f\r"}; static const char* tail[] = {"", "x", " 1", ".5", "-"};
                   long long val = (long long)r.pick((const long long[]){0, 1, 9, 10, 99, 12345, 2147483647LL, 2147483648LL, 4294967295LL, 1000000000LL});
                   if (r.flag()) val = r.u32();
                   int sign = (int)r.below(3);   // 0 none, 1 '-', 2 '+'
                   std::string digits = sfmt("%lld", val); if (r.flag()) digits = "00" + digits;
                   std::string w = r.pick(ws), t = r.pick(tail);
                   if (val <= 2147483647LL) { std::string in = w + (sign == 1 ? "-" : sign == 2 ? "+" : "") + digits + t; int got = SimpleString::AtoI(in.c_str()); V_CHECK(got == atoi(in.c_str()), "C13:AtoI", "AtoI(\"%s\") -> %d", verif::printable(in).c_str(), got); }
                   { std::string in = w + digits + t; unsigned got = SimpleString::AtoU(in.c_str()); V_CHECK(got == (unsigned)strtoul(in.c_str(), nullptr, 10), "C13:AtoU", "AtoU(\"%s\") -> %u", verif::printable(in).c_str(), got); }
                   { std::string in = r.str(4, "x-+ 9"); size_t f = in.find_first_not_of(" ");
                     int gi = SimpleString::AtoI(in.c_str()); V_CHECK(gi == atoi(in.c_str()), "C13:AtoI", "AtoI(\"%s\") -> %d", in.c_str(), gi);
                     if (f == std::string::npos || (in[f] != '-' && in[f] != '+')) { unsigned gu = SimpleString::AtoU(in.c_str()); V_CHECK(gu == (unsigned)strtoul(in.c_str(), nullptr, 10), "C13:AtoU", "AtoU(\"%s\") -> %u", in.c_str(), gu); } }
                   desc += "AtoI/AtoU;"; break; }
        case 29: { // integer / pointer / hex formatters
                   uint64_t v = r.pick((const uint64_t[]){0, 1, 9, 10, 127, 128, 255, 256, 0x7fffffffULL, 0x80000000ULL, 0xffffffffULL, 0x100000000ULL, 0x7fffffffffffffffULL, 0x8000000000000000ULL, 0xffffffffffffffffULL});
                   if (r.flag()) v = r.u64();
                   SAME(StringFrom((int)v), sfmt("%d", (int)v), "C13:StringFrom-int");
                   SAME(StringFrom((unsigned)v), sfmt("%u", (unsigned)v), "C13:StringFrom-unsigned");
                   SAME(StringFrom((long)v), sfmt("%ld", (long)v), "C13:StringFrom-long");
                   SAME(StringFrom((unsigned long)v), sfmt("%lu", (unsigned long)v), "C13:StringFrom-ulong");
                   SAME(StringFrom((long long)v), sfmt("%lld", (long long)v), "C13:StringFrom-longlong");
                   SAME(StringFrom((unsigned long long)v), sfmt("%llu", (unsigned long long)v), "C13:StringFrom-ulonglong");
                   SAME(HexStringFrom((int)v), sfmt("%x", (unsigned)v), "C13:Hex-int");
                   SAME(HexStringFrom((unsigned)v), sfmt("%x", (unsigned)v), "C13:Hex-unsigned");
                   SAME(HexStringFrom((long)v), sfmt("%lx", (unsigned long)v), "C13:Hex-long");
                   SAME(HexStringFrom((unsigned long)v), sfmt("%lx", (unsigned long)v), "C13:Hex-ulong");
                   SAME(HexStringFrom((long long)v), sfmt("%llx", (unsigned long long)v), "C13:Hex-longlong");
                   SAME(HexStringFrom((unsigned long long)v), sfmt("%llx", (unsigned long long)v), "C13:Hex-ulonglong");
                   SAME(HexStringFrom((signed char)v), sfmt("%x", (unsigned)(unsigned char)v), "C13:Hex-schar");
                   SAME(HexStringFrom((const void*)(uintptr_t)v), sfmt("%llx", (unsigned long long)v), "C13:Hex-ptr");
                   SAME(StringFrom((const void*)(uintptr_t)v), sfmt("0x%llx", (unsigned long long)v), "C13:StringFrom-ptr");
                   SAME(StringFrom((void (*)())(uintptr_t)v), sfmt("0x%llx", (unsigned long long)v), "C13:StringFrom-fptr");
                   SAME(BracketsFormattedHexStringFrom((int)v), sfmt("(0x%x)", (unsigned)v), "C13:Brackets-int");
                   SAME(BracketsFormattedHexStringFrom((unsigned)v), sfmt("(0x%x)", (unsigned)v), "C13:Brackets-unsigned");
                   SAME(BracketsFormattedHexStringFrom((long)v), sfmt("(0x%lx)", (unsigned long)v), "C13:Brackets-long");
                   SAME(BracketsFormattedHexStringFrom((unsigned long)v), sfmt("(0x%lx)", (unsigned long)v), "C13:Brackets-ulong");
                   SAME(BracketsFormattedHexStringFrom((long long)v), sfmt("(0x%llx)", (unsigned long long)v), "C13:Brackets-longlong");
                   SAME(BracketsFormattedHexStringFrom((unsigned long long)v), sfmt("(0x%llx)", (unsigned long long)v), "C13:Brackets-ulonglong");
                   SAME(BracketsFormattedHexStringFrom((signed char)v), sfmt("(0x%x)", (unsigned)(unsigned char)v), "C13:Brackets-schar");
                   SAME(StringFrom((v & 1) != 0), std::string((v & 1) ? "true" : "false"), "C13:StringFrom-bool");
                   { char c = (char)(v & 0xff); std::string e; if (c) e.push_back(c); SAME(StringFrom(c), e, "C13:StringFrom-char"); }
                   { SimpleString z((const char*)NULLPTR); SAME(z, std::string(""), "C13:construct-from-null"); V_CHECK(z.isEmpty() && z.size() == 0, "C13:construct-from-null", "not empty"); }
                   SAME(StringFromOrNull(NULLPTR), std::string("(null)"), "C13:StringFromOrNull"); SAME(StringFromOrNull(m[i].c_str()), m[i], "C13:StringFromOrNull");
                   SAME(StringFrom(*s[i]), m[i], "C13:StringFrom-SimpleString"); SAME(StringFrom(m[i]), m[i], "C13:StringFrom-stdstring"); SAME(StringFrom(nullptr), std::string("(null)"), "C13:StringFrom-nullptr");
                   desc += sfmt("ints(%llx);", (unsigned long long)v); break; }
        case 30: { unsigned n = r.pick((const unsigned[]){0, 1, 2, 3, 4, 10, 11, 12, 13, 14, 20, 21, 22, 23, 100, 101, 102, 103, 110, 111, 112, 113, 114, 121, 211, 1011, 1012, 1013, 4294967295u});
                   if (r.flag()) n = r.u32() % 5000; if (r.below(8) == 0) n = r.u32();
                   if ((n % 100 >= 11 && n % 100 <= 13) && n > 13) { nontrivial = true; }
                   SAME(StringFromOrdinalNumber(n), ordinal(n), "C13:ordinal"); desc += sfmt("ordinal(%u);", n); break; }
        case 31: { // binary formatters
                   std::string b = r.bytes(r.below(4) == 0 ? 200 : 10, 0);
                   const unsigned char* p = (const unsigned char*)b.data(); size_t n = b.size();
                   std::vector<unsigned char> exact(p, p + n);   // exact-size heap copy: ASan sees any over-read
                   const unsigned char* q = n ? exact.data() : (const unsigned char*)"";
                   SAME(StringFromBinary(q, n), hexbytes(q, n), "C13:StringFromBinary");
                   SAME(StringFromBinaryOrNull(q, n), hexbytes(q, n), "C13:StringFromBinaryOrNull");
                   SAME(StringFromBinaryOrNull(NULLPTR, n), std::string("(null)"), "C13:StringFromBinaryOrNull");
                   std::string ws = sfmt("Size = %u | HexContents = ", (unsigned)n) + hexbytes(q, std::min<size_t>(n, 128)) + (n > 128 ? " ..." : "");
                   SAME(StringFromBinaryWithSize(q, n), ws, "C13:StringFromBinaryWithSize");
                   SAME(StringFromBinaryWithSizeOrNull(q, n), ws, "C13:StringFromBinaryWithSizeOrNull");
                   SAME(StringFromBinaryWithSizeOrNull(NULLPTR, n), std::string("(null)"), "C13:StringFromBinaryWithSizeOrNull");
                   desc += sfmt("binary(%zu);", n); break; }
        case 32: { unsigned long value = r.flag() ? r.u64() : (unsigned long)r.u8(), mask = r.pick((const unsigned long[]){~0UL, 0UL, 0xffUL, 0xf0f0UL, 0x8000000000000001UL}); if (r.flag()) mask = r.u64();
                   size_t bc = 1 + r.below(9);
                   size_t bits = (bc > 8 ? 8 : bc) * 8; std::string e;
                   for (size_t q = 0; q < bits; q++) { size_t bit = bits - 1 - q; bool mk = (mask >> bit) & 1, vl = (value >> bit) & 1; e.push_back(mk ? (vl ? '1' : '0') : 'x'); if (q % 8 == 7 && q != bits - 1) e.push_back(' '); }
                   SAME(StringFromMaskedBits(value, mask, bc), e, "C13:maskedBits"); desc += sfmt("maskedBits(%zu);", bc); break; }
        case 33: { // formatted construction (crosses the 100-byte fast path) and doubles
                   std::string a = m[i].substr(0, 300), b = m[j].substr(0, 300); int d = (int)r.u32();
                   char big[2048];
                   snprintf(big, sizeof big, "%s", a.c_str()); SAME(StringFromFormat("%s", a.c_str()), std::string(big), "C13:format");
                   snprintf(big, sizeof big, "[%s|%s]", a.c_str(), b.c_str()); SAME(StringFromFormat("[%s|%s]", a.c_str(), b.c_str()), std::string(big), "C13:format");
                   snprintf(big, sizeof big, "%d:%s", d, a.c_str()); SAME(StringFromFormat("%d:%s", d, a.c_str()), std::string(big), "C13:format");
                   snprintf(big, sizeof big, "%-120s|", b.c_str()); SAME(StringFromFormat("%-120s|", b.c_str()), std::string(big), "C13:format");
                   // exactly around the fast-path boundary
                   for (size_t L : {98u, 99u, 100u, 101u}) { std::string x(L, 'q'); SAME(StringFromFormat("%s", x.c_str()), x, "C13:format-boundary"); }
                   double dv = r.pick((const double[]){0.0, -0.0, 1.0, -1.5, 1e-310, 1e300, 3.14159265358979, 1.0 / 3.0, INFINITY, -INFINITY, NAN, 123456789.0});
                   int prec = (int)r.below(18);
                   std::string e = std::isnan(dv) ? "Nan - Not a number" : std::isinf(dv) ? "Inf - Infinity" : sfmt("%.*g", prec, dv);
                   SAME(StringFrom(dv, prec), e, "C13:StringFrom-double");
                   desc += "format;"; break; }
        }
        if (g_alloc->bad) return verif::fail("C13:allocator-contract", "%s [%s]", g_alloc->badmsg.c_str(), ctx.c_str());
        for (int q = 0; q < 3; q++) SAME(*s[q], m[q], "C13:slot-changed");
    }
    return 0;
}

}  // namespace

extern "C" const char* verif_property(void) { return "C13"; }
extern "C" void verif_init(void) {
    g_alloc = new RecAlloc();
    SimpleString::setStringAllocator(g_alloc);
}
extern "C" int verif_case(const uint8_t* data, size_t size) {
    Reader r(data, size);
    g_alloc->bad = false;
    size_t live_before = g_alloc->live.size();
    bool nontrivial = false; std::string desc;
    int rc = run_case(r, nontrivial, desc);
    if (rc == 0 && g_alloc->bad) rc = verif::fail("C13:allocator-contract", "%s", g_alloc->badmsg.c_str());
    if (rc == 0 && g_alloc->live.size() != live_before)
        rc = verif::fail("C13:buffer-not-returned", "%zu string buffers still outstanding after every object of the case was destroyed", g_alloc->live.size() - live_before);
    if (rc) { // do not let a failing case poison the next one
        for (auto& kv : g_alloc->live) free(kv.first);
        g_alloc->live.clear();
    }
    verif::note_case(nontrivial, r.h, [&] { return desc; });
    return rc;
}
extern "C" int verif_known_repro(const char* key) {
    std::string k(key);
    if (k == "C13:replace-empty-pattern") return 1;   // by reading: the scan index never advances (not executed: it does not terminate)
    return -1;
}
