// C11 — separate-process mode contains every way a test can die.
//
// Decoder (total): first byte selects
//   even        part (a): a program of 1..8 tests run with setRunTestsInSeperateProcess() in REAL child processes; each child
//               executes 1..2 decoded actions at decoded points (plugin pre action, setup, body, teardown, plugin post
//               action): nothing / fail a check (throwing, longjmp, unexpected exception, recorded only) / _exit(k) /
//               signal(s, SIG_DFL) + raise(s), s in 1..31 / abort().  0..30 EINTR results are injected in front of the
//               real waitpid (the PlatformSpecificWaitPid seam forwards to waitpid afterwards).
//               Bits 1-2 of the first byte choose how the separate-process flag reaches the tests: 0 (and 3)
//               TestRegistry::setRunTestsInSeperateProcess(); 1 UtestShell::setRunInSeperateProcess() on single tests, mixed
//               with tests that run in the parent process, IGNORE_TEST shells and TestRegistry::setRunIgnored(); 2 the command
//               line: CommandLineTestRunner with "-p" and a decoded subset of -ri, -r2/-r3/-r (repetitions), -v, -f (crash on
//               fail: a failed check aborts the child), -e (do not rethrow unexpected exceptions).
//               Route 3: the test list is built by a decoded script: each test enters by TestRegistry::addTest, by a
//               TestInstaller into the current registry, as an OrderedTestShell through OrderedTestInstaller (decoded level),
//               or by addTest + unDoLastAddTest + addTest; setRunTestsInSeperateProcess() is called before the first, between
//               two, or after the last entry; then up to three of reverseTests / shuffleTests(seed) / unDoLastAddTest + re-add.
//   0xEB        REAL interruptions of the REAL wait path: 1..4 tests; a "blocking" test's child blocks in pause() (hard cap 30 s)
//               while the parent runs a 1 ms interval timer whose SIGALRM handler is installed without SA_RESTART, so the
//               platform's default waitpid really returns EINTR.  Nothing is scripted.  The tick handler counts the delivered
//               signals and kills the child after 400 of them, so the verdict never depends on elapsed time.
//   odd         part (b): PlatformSpecificFork / PlatformSpecificWaitPid are stubs replaying a decoded outcome script per
//               test: fork error, or segments "EINTR x L (0..40 or endless), then one of exited k / signalled s /
//               stopped s / continued / error(errno)".  No process is created; the stub returns the harness's own pid.
//   0xEE, b<10  one completely enumerated sub-space in real processes: block 0..4 = every signal 1..31 and abort() at one
//               of the five points (32 children), block 5..9 = every exit status 0..255 at one point (256 children).
// Oracle: the POSIX default-action table and DESIGN.md appendix A.4 (written independently of the code under test);
//         records are read from a recording TestResult in the parent; progress of the children through their phases is
//         read from a shared page; status words seen by the parent are cross-checked against the model (harness
//         self-check, signature prefix C11:harness-).
#include "common.h"
#include "CppUTest/CommandLineTestRunner.h"
#include "CppUTestExt/OrderedTest.h"
#include <algorithm>
#include <stdexcept>
#include <errno.h>
#include <signal.h>
#include <unistd.h>
#include <sys/mman.h>
#include <sys/prctl.h>
#include <sys/resource.h>
#include <sys/time.h>
#include <sys/wait.h>

using verif::Reader;
using verif::sfmt;

namespace {

enum { PRE = 0, SETUP, BODY, TEARDOWN, POST, NPHASE };
const char* const PH[NPHASE] = {"pre", "setup", "body", "teardown", "post"};
enum { K_NOTHING = 0, K_FAIL, K_EXIT, K_SIGNAL, K_ABORT, K_PRINT, K_BLOCK };
enum { F_THROW = 0, F_LONGJMP, F_UNEXPECTED, F_ADDONLY };
const char* const FV[4] = {"throw", "longjmp", "unexpected-exception", "recorded-only"};
const int FAIL_SEL[8] = {F_THROW, F_LONGJMP, F_UNEXPECTED, F_ADDONLY, F_UNEXPECTED, F_THROW, F_LONGJMP, F_UNEXPECTED};   // 4 and 7: the exception is a std::exception (arg = 1)
// reserved child statuses of the guards (appendix A.4: the child side of a fork never returns into the harness)
const int GUARD_RET = 201;      // the child returned from runOneTest (longjmp out of a plugin action into the copied parent frame)
const int GUARD_THROW = 202;    // an exception left runOneTest in the child (a real runner would std::terminate)
const int GUARD_LATE = 203;     // the child returned from runAllTests
const int GUARD_SIGRET = 204;   // raise() of a terminating signal returned
const int GUARD_ORPHAN = 205;   // the parent was gone before the child started
const int MAXT = 8, MAXA = 2, MAXREP = 3, MAXF = MAXT * MAXREP;   // MAXF: children of one program (tests x repetitions)
const int EINTR_TOLERATED = 30; // "Tried 30 times": runs up to this length must be absorbed
const int TICK_KILL = 400;       // real-interruption mode: the harness kills the blocking child after this many delivered timer signals
const int STUB_CALL_CAP = 1000; // harness cap on waitpid calls for one test

enum SigClass { S_TERM, S_IGN, S_STOP, S_MAYSTOP };
SigClass sig_class(int s) {
    switch (s) {
    case SIGCHLD: case SIGCONT: case SIGURG: case SIGWINCH: return S_IGN;
    case SIGSTOP: return S_STOP;
    case SIGTSTP: case SIGTTIN: case SIGTTOU: return S_MAYSTOP;     // discarded when the process group is orphaned
    default: return S_TERM;
    }
}

struct Act { int phase, kind, var, arg; };
struct RealTest { Act acts[MAXA]; int nact; int eintr[2]; bool ignored, flag; int entry, level; };   // ignored: IGNORE_TEST shell; flag: setRunInSeperateProcess() on this shell
enum { ROUTE_REGISTRY = 0, ROUTE_PER_TEST, ROUTE_COMMAND_LINE, ROUTE_BUILD_SCRIPT };
enum { ENTER_ADDTEST = 0, ENTER_INSTALLER, ENTER_ORDERED, ENTER_ADD_UNDO_ADD };
const char* const ENTRY[4] = {"addTest", "TestInstaller", "OrderedTestInstaller", "addTest+unDoLastAddTest+addTest"};
enum { OP_REVERSE = 1, OP_SHUFFLE, OP_UNDO_READD };
struct ProgOpts { int route; bool reg_flag, run_ignored; int repeat, repeat_sel; bool verbose, crash_on_fail, rethrow;
                  int enable_at; int nops; int ops[3]; int op_seed[3]; };   // enable_at: number of tests that have entered the list when the mode is switched on
ProgOpts g_opt;
bool test_runs(const RealTest& rt) { return !rt.ignored || g_opt.run_ignored; }
bool test_separate(const RealTest& rt) { return g_opt.reg_flag || rt.flag; }
bool test_inproc(const RealTest& rt) { return test_runs(rt) && !test_separate(rt); }
enum { E_EXIT = 0, E_SIGNALED, E_STOPPED, E_CONTINUED, E_ERROR };
struct Seg { int eintr; int ev; int arg; bool core; };   // eintr: 0..40, -1 endless
struct StubTest { bool fork_fail; int fork_errno; std::vector<Seg> segs; };

struct Shared { volatile uint8_t reached[MAXT][NPHASE]; volatile uint8_t acted[MAXT][MAXA]; volatile uint8_t wrong_child; };
Shared* g_sh;

// ---- state of the running program (parent side unless stated) ---------------------------------------------------
int (*g_orig_fork)(void);
int (*g_orig_waitpid)(int, int*, int);
RealTest g_real[MAXT];
StubTest g_stub[MAXT];
int g_ntests;
bool g_in_child = false;          // true only in a forked child
pid_t g_parent;
int g_forks;                      // calls of the fork seam so far; current child = g_forks - 1
int g_plan[MAXF], g_plan_n;       // test index of every child the program is expected to create, in order
int g_child_test = -1;            // child side: the test this child was created for
std::vector<pid_t> g_pids;
pid_t g_last_pid;
bool g_env_fork_failed[MAXF];
struct WaitEntry { int test; int ret; int err; int status; bool injected; };
std::vector<WaitEntry> g_waitlog;
int g_eintr_left[MAXF][2];
int g_stage[MAXF];
bool g_last_was_stop[MAXF];
std::string g_flag_sig, g_flag_msg;
// stub mode
size_t g_seg_idx[MAXT];
int g_seg_eintr_left[MAXT];
bool g_terminal_delivered[MAXT];
int g_stub_calls[MAXT];
volatile sig_atomic_t g_sigcont_seen;
int g_sigcont_at_start[MAXT + 1];

void flag(const char* sig, const std::string& msg) { if (g_flag_sig.empty()) { g_flag_sig = sig; g_flag_msg = msg; } }

// ---- real interruptions: interval timer in the parent for the duration of one test ------------------------------------
volatile sig_atomic_t g_ticks, g_tick_killed;
volatile pid_t g_tick_pid;
bool g_ticking = false, g_tick_child_reaped = false;   // reaped: the code under test has already collected the child (never signal a pid twice)
int g_tick_fork = -1;                 // ordinal of the child the timer runs for
int g_ticks_of[MAXF]; bool g_killed_by_ticks[MAXF];
struct sigaction g_tick_old_sa; struct itimerval g_tick_old_timer;
void on_tick(int) {
    g_ticks++;
    if (g_ticks >= TICK_KILL && !g_tick_killed && g_tick_pid > 0) { kill(g_tick_pid, SIGKILL); g_tick_killed = 1; }
}
void start_ticks(pid_t pid, int fork_ordinal) {
    g_ticks = 0; g_tick_killed = 0; g_tick_pid = pid; g_tick_fork = fork_ordinal; g_ticking = true; g_tick_child_reaped = false;
    struct sigaction sa; memset(&sa, 0, sizeof sa); sa.sa_handler = on_tick; sigemptyset(&sa.sa_mask); sa.sa_flags = 0;   // no SA_RESTART
    sigaction(SIGALRM, &sa, &g_tick_old_sa);
    struct itimerval it; it.it_interval.tv_sec = 0; it.it_interval.tv_usec = 1000; it.it_value = it.it_interval;
    setitimer(ITIMER_REAL, &it, &g_tick_old_timer);      // shares the timer with the wrapper's alarm(): saved and put back
}
// end of the test the timer ran for: timer and handler back, the child (left behind by a parent that gave up) killed and reaped
void stop_ticks() {
    if (!g_ticking) return;
    struct itimerval off; memset(&off, 0, sizeof off);
    setitimer(ITIMER_REAL, &off, NULL);
    sigaction(SIGALRM, &g_tick_old_sa, NULL);
    setitimer(ITIMER_REAL, &g_tick_old_timer, NULL);
    g_ticking = false;
    if (g_tick_fork >= 0 && g_tick_fork < MAXF) { g_ticks_of[g_tick_fork] = (int)g_ticks; g_killed_by_ticks[g_tick_fork] = g_tick_killed != 0; }
    if (g_tick_pid > 0 && !g_tick_child_reaped) { int st; kill(g_tick_pid, SIGKILL); while (waitpid(g_tick_pid, &st, 0) < 0 && errno == EINTR) {} }
    g_tick_pid = 0;
}

// ---- recording: everything the parent's TestResult reports goes through its TestOutput -------------------------------
struct Rec { std::string test, msg; };
struct Run {            // one TestRegistry::runAllTests
    std::vector<Rec> recs; std::vector<std::string> started; size_t ended;
    bool finished; size_t failures, runs, tests, ignored; bool is_failure;
    Run() : ended(0), finished(false), failures(0), runs(0), tests(0), ignored(0), is_failure(false) {}
};
std::vector<Run> g_runs;
class RecOutput : public StringBufferTestOutput {
public:
    void printTestsStarted() CPPUTEST_OVERRIDE { if (!g_in_child) g_runs.push_back(Run()); StringBufferTestOutput::printTestsStarted(); }
    void printCurrentTestStarted(const UtestShell& t) CPPUTEST_OVERRIDE {
        if (!g_in_child && !g_runs.empty()) g_runs.back().started.push_back(t.getName().asCharString());
        StringBufferTestOutput::printCurrentTestStarted(t);
    }
    void printCurrentTestEnded(const TestResult& r) CPPUTEST_OVERRIDE {
        if (!g_in_child) stop_ticks();
        if (!g_in_child && !g_runs.empty()) g_runs.back().ended++;
        StringBufferTestOutput::printCurrentTestEnded(r);
    }
    void printFailure(const TestFailure& f) CPPUTEST_OVERRIDE {
        if (!g_in_child && !g_runs.empty()) { Rec r; r.test = f.getTestNameOnly().asCharString(); r.msg = f.getMessage().asCharString(); g_runs.back().recs.push_back(r); }
        StringBufferTestOutput::printFailure(f);
    }
    void printTestsEnded(const TestResult& r) CPPUTEST_OVERRIDE {
        if (!g_in_child && !g_runs.empty()) {
            Run& x = g_runs.back(); x.finished = true; x.failures = r.getFailureCount(); x.runs = r.getRunCount(); x.tests = r.getTestCount();
            x.ignored = r.getIgnoredCount(); x.is_failure = r.isFailure();
        }
        StringBufferTestOutput::printTestsEnded(r);
    }
};

// ---- child side ------------------------------------------------------------------------------------------------------
void do_action(int t, int ai, UtestShell* shell, TestResult* result) {
    const Act& a = g_real[t].acts[ai];
    g_sh->acted[t][ai] = 1;
    switch (a.kind) {
    default:
    case K_NOTHING: return;
    case K_FAIL:
        if (a.phase == PRE || a.phase == POST) {
            result->addFailure(TestFailure(shell, "c11 plugin failure"));
            if (a.var == F_THROW) UtestShell::getCurrentTestTerminator().exitCurrentTest();
            if (a.var == F_LONGJMP) UtestShell::getCurrentTestTerminatorWithoutExceptions().exitCurrentTest();
            return;
        }
        switch (a.var) {
        case F_THROW: UtestShell::getCurrent()->fail("c11 failed check", __FILE__, __LINE__); return;
        case F_LONGJMP: UtestShell::getCurrent()->fail("c11 failed C check", __FILE__, __LINE__, UtestShell::getCurrentTestTerminatorWithoutExceptions()); return;
        case F_UNEXPECTED: if (a.arg) throw std::runtime_error("c11 std exception"); throw 42;
        default: UtestShell::getCurrent()->addFailure(TestFailure(UtestShell::getCurrent(), "c11 recorded failure")); return;
        }
    case K_PRINT:
        if (a.phase == PRE || a.phase == POST) result->print("c11 plugin prints\n");
        else UtestShell::getCurrent()->print("c11 test prints", __FILE__, __LINE__);
        return;
    case K_BLOCK:
        if (!g_in_child) return;
        signal(SIGALRM, SIG_DFL); alarm(30);          // hard cap on the life of a child nobody kills
        for (;;) pause();
    case K_EXIT: if (!g_in_child) return; _exit(a.arg);
    case K_SIGNAL: {
        if (!g_in_child) return;
        signal(a.arg, SIG_DFL);                       // fails for SIGKILL / SIGSTOP, whose action cannot be changed anyway
        sigset_t m; sigemptyset(&m); sigaddset(&m, a.arg); sigprocmask(SIG_UNBLOCK, &m, NULL);
        raise(a.arg);
        if (sig_class(a.arg) == S_TERM) _exit(GUARD_SIGRET);
        return;
    }
    case K_ABORT: if (!g_in_child) return; signal(SIGABRT, SIG_DFL); abort();
    }
}

void hook(int t, int phase, UtestShell* shell, TestResult* result) {
    bool inproc = test_inproc(g_real[t]);
    if (!g_in_child && !inproc) {   // never execute a killing action in the harness process itself
        flag("C11:test-executed-in-parent-process", sfmt("the %s point of test t%d was executed in the parent process although the test is to run in a separate process", PH[phase], t));
        return;
    }
    if (g_in_child && (inproc || g_child_test != t)) { g_sh->wrong_child = 1; _exit(GUARD_LATE); }   // a child runs a test it was not created for
    g_sh->reached[t][phase] = 1;
    for (int ai = 0; ai < g_real[t].nact; ai++)
        if (g_real[t].acts[ai].phase == phase) do_action(t, ai, shell, result);
}

class C11Test : public Utest {
public:
    int t_; UtestShell* shell_;
    C11Test(int t, UtestShell* s) : t_(t), shell_(s) {}
    void setup() CPPUTEST_OVERRIDE { hook(t_, SETUP, shell_, NULLPTR); }
    void testBody() CPPUTEST_OVERRIDE { hook(t_, BODY, shell_, NULLPTR); }
    void teardown() CPPUTEST_OVERRIDE { hook(t_, TEARDOWN, shell_, NULLPTR); }
};
const char* const TNAME[MAXT] = {"t0", "t1", "t2", "t3", "t4", "t5", "t6", "t7"};
int index_of(const UtestShell& s) { SimpleString n = s.getName(); return (n.size() == 2 && n.at(0) == 't') ? n.at(1) - '0' : 0; }
template <class Base> class C11ShellT : public Base {
public:
    int t_;
    explicit C11ShellT(int t) : Base("c11", TNAME[t], "c11_file.cpp", (size_t)(100 + t)), t_(t) {}
    Utest* createTest() CPPUTEST_OVERRIDE { return new C11Test(t_, this); }
    void destroyTest(Utest* u) CPPUTEST_OVERRIDE { delete u; }
    void runOneTest(TestPlugin* p, TestResult& r) CPPUTEST_OVERRIDE {
        try { Base::runOneTest(p, r); }
        catch (...) { if (g_in_child) _exit(GUARD_THROW); throw; }
        if (g_in_child) _exit(GUARD_RET);      // guard of appendix A.4
    }
};
typedef C11ShellT<UtestShell> C11Shell;
class C11OrderedShell : public OrderedTestShell {     // OrderedTestShell has a default constructor only; the installer names it
public:
    int t_;
    explicit C11OrderedShell(int t) : t_(t) {}
    Utest* createTest() CPPUTEST_OVERRIDE { return new C11Test(t_, this); }
    void destroyTest(Utest* u) CPPUTEST_OVERRIDE { delete u; }
    void runOneTest(TestPlugin* p, TestResult& r) CPPUTEST_OVERRIDE {
        try { OrderedTestShell::runOneTest(p, r); }
        catch (...) { if (g_in_child) _exit(GUARD_THROW); throw; }
        if (g_in_child) _exit(GUARD_RET);
    }
};
typedef C11ShellT<IgnoredUtestShell> C11IgnoredShell;
class C11Plugin : public TestPlugin {
public:
    C11Plugin() : TestPlugin("c11plugin") {}
    void preTestAction(UtestShell& s, TestResult& r) CPPUTEST_OVERRIDE { hook(index_of(s), PRE, &s, &r); }
    void postTestAction(UtestShell& s, TestResult& r) CPPUTEST_OVERRIDE { hook(index_of(s), POST, &s, &r); }
};

// ---- seams, part (a): real processes -------------------------------------------------------------------------------

int real_fork_seam(void) {
    int t = g_forks++;       // ordinal of the child
    if (t >= g_plan_n) {
        flag("C11:more-children-than-expected", sfmt("the fork seam was called %d times, the program has %d tests to run in a separate process (repetitions included)", t + 1, g_plan_n));
        errno = EAGAIN; return -1;
    }
    pid_t p = g_orig_fork();       // the platform's default implementation (PlatformSpecificForkImplementation)
    if (p == 0) {
        g_in_child = true;
        g_child_test = g_plan[t];
        prctl(PR_SET_PDEATHSIG, SIGKILL);            // no stray (possibly stopped) child survives the harness
        if (getppid() != g_parent) _exit(GUARD_ORPHAN);
        return 0;
    }
    if (p > 0) {
        g_pids.push_back(p); g_last_pid = p;
        const RealTest& rt = g_real[g_plan[t]];
        for (int ai = 0; ai < rt.nact; ai++) if (rt.acts[ai].kind == K_BLOCK) { start_ticks(p, t); break; }
    }
    else { int e = errno; g_env_fork_failed[t] = true; g_last_pid = -1; errno = e; }
    return p;
}

// state letter of /proc/<pid>/stat ('T' = stopped), 0 when unreadable
char proc_state(int pid) {
    char path[64], buf[512];
    snprintf(path, sizeof path, "/proc/%d/stat", pid);
    FILE* f = fopen(path, "r");
    if (!f) return 0;
    size_t n = fread(buf, 1, sizeof buf - 1, f);
    fclose(f);
    buf[n] = 0;
    const char* q = strrchr(buf, ')');
    return (q && q[1] == ' ') ? q[2] : 0;
}

int real_waitpid_seam(int pid, int* status, int options) {
    int t = g_forks - 1;
    if (t < 0 || t >= g_plan_n || g_env_fork_failed[t] || pid != g_last_pid || pid <= 0) {
        flag("C11:waitpid-on-wrong-process", sfmt("waitpid(%d, ...) called while the child of the current test is %d", pid, (int)g_last_pid));
        errno = ECHILD; return -1;
    }
    if (!(options & WUNTRACED)) {   // a stopped child would never be seen, never be continued, and the harness would hang with it
        flag("C11:wait-does-not-ask-for-stops", "waitpid called without WUNTRACED");
        options |= WUNTRACED;
    }
    int stage = g_stage[t] < 2 ? g_stage[t] : 2;
    if (stage < 2 && g_eintr_left[t][stage] > 0) {
        g_eintr_left[t][stage]--;
        WaitEntry e = {t, -1, EINTR, 0, true}; g_waitlog.push_back(e);
        errno = EINTR; return -1;
    }
    if (g_last_was_stop[t]) {
        // the stop was consumed by the previous call; if the child has no new state change to report and is still in
        // state T, nobody continued it.  (waitid alone is not enough: between exit_group() and becoming a zombie a
        // continued child reports neither "continued" nor "exited".)
        siginfo_t si; memset(&si, 0, sizeof si);
        int r = waitid(P_PID, (id_t)pid, &si, WEXITED | WSTOPPED | WCONTINUED | WNOHANG | WNOWAIT);
        if (r == 0 && si.si_pid == 0 && proc_state(pid) == 'T') {
            flag("C11:stopped-child-not-continued", sfmt("child #%d (t%d) was reported as stopped and the parent waits again without having sent SIGCONT", t, g_plan[t]));
            kill(pid, SIGCONT);   // keep the harness alive
        }
        g_last_was_stop[t] = false;
    }
    int w = g_orig_waitpid(pid, status, options);     // the platform's default implementation
    int err = errno;
    WaitEntry e = {t, w, w < 0 ? err : 0, (w > 0 && status) ? *status : 0, false}; g_waitlog.push_back(e);
    if (w > 0) {
        g_stage[t]++;
        if (status && WIFSTOPPED(*status)) g_last_was_stop[t] = true;
        if (status && (WIFEXITED(*status) || WIFSIGNALED(*status)) && g_ticking && t == g_tick_fork) { g_tick_child_reaped = true; g_tick_pid = 0; }
    }
    errno = err;
    return w;
}

// ---- seams, part (b): scripted outcomes -----------------------------------------------------------------------------
void on_sigcont(int) { g_sigcont_seen++; }

int stub_fork_seam(void) {
    int t = g_forks++;
    if (t >= g_plan_n) { flag("C11:more-children-than-expected", "the fork seam was called more often than there are tests"); errno = EAGAIN; return -1; }
    g_sigcont_at_start[t] = (int)g_sigcont_seen;
    if (g_stub[t].fork_fail) { errno = g_stub[t].fork_errno; return -1; }
    return (int)g_parent;        // "parent side"; kill(own pid, SIGCONT) is harmless
}

int stub_waitpid_seam(int pid, int* status, int options) {
    int t = g_forks - 1;
    if (t < 0 || t >= MAXT) { errno = ECHILD; return -1; }
    StubTest& s = g_stub[t];
    g_stub_calls[t]++;
    if (s.fork_fail) {
        flag("C11:waitpid-after-failed-fork", sfmt("fork failed for t%d and the parent still called waitpid(%d, ...)", t, pid));
        if (status) *status = 0;
        return (int)g_parent;
    }
    if (pid != (int)g_parent) flag("C11:waitpid-on-wrong-process", sfmt("waitpid(%d, ...) but fork returned %d", pid, (int)g_parent));
    if (!(options & WUNTRACED)) flag("C11:wait-does-not-ask-for-stops", "waitpid called without WUNTRACED");
    if (g_terminal_delivered[t]) {
        flag("C11:waitpid-after-terminal-status", sfmt("t%d: waitpid called again after the child had been reported as terminated / the wait had failed", t));
        if (status) *status = 0;
        return (int)g_parent;
    }
    if (g_stub_calls[t] > STUB_CALL_CAP) {
        flag("C11:interrupted-wait-retried-without-bound", sfmt("t%d: more than %d waitpid calls against an endless EINTR stream", t, STUB_CALL_CAP));
        if (status) *status = 0;
        g_terminal_delivered[t] = true;
        return (int)g_parent;
    }
    if (g_seg_eintr_left[t] != 0) {
        if (g_seg_eintr_left[t] > 0) g_seg_eintr_left[t]--;
        WaitEntry e = {t, -1, EINTR, 0, true}; g_waitlog.push_back(e);
        errno = EINTR; return -1;
    }
    const Seg& sg = s.segs[g_seg_idx[t]];
    int st = 0, ret = (int)g_parent, err = 0;
    switch (sg.ev) {
    case E_EXIT: st = (sg.arg & 0xff) << 8; g_terminal_delivered[t] = true; break;
    case E_SIGNALED: st = (sg.arg & 0x7f) | (sg.core ? 0x80 : 0); g_terminal_delivered[t] = true; break;
    case E_STOPPED: st = ((sg.arg & 0xff) << 8) | 0x7f; break;
    case E_CONTINUED: st = 0xffff; break;
    default: ret = -1; err = sg.arg; g_terminal_delivered[t] = true; break;
    }
    WaitEntry e = {t, ret, err, st, false}; g_waitlog.push_back(e);
    if (!g_terminal_delivered[t]) {
        g_seg_idx[t]++;                                   // the decoder guarantees a terminal last segment
        g_seg_eintr_left[t] = s.segs[g_seg_idx[t]].eintr;
    }
    if (ret < 0) { errno = err; return -1; }
    if (status) *status = st;
    return ret;
}

// ---- records --------------------------------------------------------------------------------------------------------
enum { R_FAILED, R_KILLED, R_STOPPED, R_FORK, R_WAIT, R_GIVEUP, R_INPROC, R_OTHER };
struct Tok { int kind; int sig; };
Tok classify(const std::string& m) {
    Tok t = {R_OTHER, 0};
    const char* k = "killed by signal ";
    size_t p = m.find(k);
    if (m.find("Failed in separate process") == 0 && p != std::string::npos) { t.kind = R_KILLED; t.sig = atoi(m.c_str() + p + strlen(k)); }
    else if (m == "Failed in separate process") t.kind = R_FAILED;
    else if (m.find("Stopped in separate process") == 0) t.kind = R_STOPPED;
    else if (m.find("fork() failed") != std::string::npos) t.kind = R_FORK;
    else if (m.find("waitpid() failed with EINTR") != std::string::npos) t.kind = R_GIVEUP;
    else if (m.find("waitpid() failed") != std::string::npos) t.kind = R_WAIT;
    else if (m.find("c11 ") == 0 || m.find("Unexpected exception") == 0) t.kind = R_INPROC;     // a failure of the test itself, recorded in the parent process
    return t;
}
std::string tok_str(const Tok& t) {
    switch (t.kind) {
    case R_FAILED: return "failed";
    case R_KILLED: return sfmt("killed(%d)", t.sig);
    case R_STOPPED: return "stopped";
    case R_FORK: return "fork-failed";
    case R_WAIT: return "waitpid-failed";
    case R_GIVEUP: return "eintr-giving-up";
    case R_INPROC: return "own-failure";
    default: return "other";
    }
}
std::string toks_str(const std::vector<Tok>& v) { std::string s = "["; for (size_t i = 0; i < v.size(); i++) { if (i) s += ", "; s += tok_str(v[i]); } return s + "]"; }
bool same(const std::vector<Tok>& a, const std::vector<Tok>& b) {
    if (a.size() != b.size()) return false;
    for (size_t i = 0; i < a.size(); i++) if (a[i].kind != b[i].kind || a[i].sig != b[i].sig) return false;
    return true;
}

// ---- model of one child (POSIX default actions + the framework's documented phase rules) ----------------------------
struct Expect { int stops, maybe; bool final_signal; int final_arg; uint8_t reach[NPHASE]; uint8_t acted[MAXA]; bool dies_outside_body; bool guard_ret, guard_throw;
                bool status_by_code; int child_failures; bool crash_abort; bool blocks; };   // status_by_code: the child ran to its end, the exit status is computed by the code under test
// inproc: the test runs in the parent process (nothing can die; every failure is recorded directly)
Expect model_child(const RealTest& rt, bool inproc, bool crash_on_fail) {
    Expect e; memset(&e, 0, sizeof e);
    const bool crash = crash_on_fail && !inproc, rethrow = g_opt.rethrow && !inproc;
    int child_failures = 0; bool skip_body = false, done = false;
    for (int ph = 0; ph < NPHASE && !done; ph++) {
        if (ph == BODY && skip_body) continue;
        e.reach[ph] = 1;
        for (int ai = 0; ai < rt.nact && !done; ai++) {
            const Act& a = rt.acts[ai];
            if (a.phase != ph) continue;
            e.acted[ai] = 1;
            bool leave_phase = false;
            switch (a.kind) {
            case K_NOTHING: case K_PRINT: break;
            case K_BLOCK: if (inproc) break; e.blocks = true; done = true; break;       // the child never ends by itself
            case K_FAIL:
                child_failures++;
                if (crash && (a.var == F_THROW || a.var == F_LONGJMP)) {
                    // crash on fail: the terminator of a failed check calls abort() before leaving the test
                    e.final_signal = true; e.final_arg = SIGABRT; e.crash_abort = true; done = true; if (ph != BODY) e.dies_outside_body = true;
                } else if (rethrow && a.var == F_UNEXPECTED && ph != PRE && ph != POST) {
                    // the unexpected exception is recorded and thrown on: it leaves runOneTest in the child (a real runner terminates)
                    e.final_signal = false; e.final_arg = GUARD_THROW; e.guard_throw = true; done = true;
                } else if (ph == PRE || ph == POST) {
                    if (a.var == F_THROW) { e.final_signal = false; e.final_arg = GUARD_THROW; e.guard_throw = true; done = true; }
                    else if (a.var == F_LONGJMP) { e.final_signal = false; e.final_arg = GUARD_RET; e.guard_ret = true; done = true; }
                } else if (a.var != F_ADDONLY) {
                    leave_phase = true;
                    if (ph == SETUP) skip_body = true;
                }
                break;
            case K_EXIT: if (inproc) break; e.final_signal = false; e.final_arg = a.arg; done = true; if (a.arg != 0 && ph != BODY) e.dies_outside_body = true; break;
            case K_ABORT: if (inproc) break; e.final_signal = true; e.final_arg = SIGABRT; done = true; if (ph != BODY) e.dies_outside_body = true; break;
            case K_SIGNAL:
                if (inproc) break;
                switch (sig_class(a.arg)) {
                case S_TERM: e.final_signal = true; e.final_arg = a.arg; done = true; if (ph != BODY) e.dies_outside_body = true; break;
                case S_IGN: break;
                case S_STOP: e.stops++; break;
                case S_MAYSTOP: e.maybe++; break;
                }
                break;
            }
            if (leave_phase) break;
        }
    }
    if (!done) { e.final_signal = false; e.final_arg = child_failures > 0 ? 1 : 0; e.status_by_code = true; }
    e.child_failures = child_failures;
    return e;
}

std::string failure_routes(const RealTest& rt, const Expect& e);
std::string act_str(const Act& a) {
    switch (a.kind) {
    case K_FAIL: return sfmt("%s:fail(%s%s)", PH[a.phase], ((a.phase == PRE || a.phase == POST) && a.var >= F_UNEXPECTED) ? FV[F_ADDONLY] : FV[a.var],
                             (a.var == F_UNEXPECTED && a.arg && a.phase != PRE && a.phase != POST) ? ":std" : "");
    case K_EXIT: return sfmt("%s:_exit(%d)", PH[a.phase], a.arg);
    case K_SIGNAL: return sfmt("%s:raise(%d)", PH[a.phase], a.arg);
    case K_ABORT: return sfmt("%s:abort", PH[a.phase]);
    case K_PRINT: return sfmt("%s:print", PH[a.phase]);
    case K_BLOCK: return sfmt("%s:block-in-pause (parent interrupted every 1 ms)", PH[a.phase]);
    default: return sfmt("%s:nothing", PH[a.phase]);
    }
}
// how the failures of a child that ran to its end were recorded (for messages)
std::string failure_routes(const RealTest& rt, const Expect& e) {
    std::string s;
    for (int ai = 0; ai < rt.nact; ai++) {
        const Act& a = rt.acts[ai];
        if (a.kind != K_FAIL || !e.acted[ai]) continue;
        if (!s.empty()) s += "; ";
        if (a.phase == PRE || a.phase == POST) s += sfmt("plugin %s action: result.addFailure", PH[a.phase]);
        else s += sfmt("%s: %s", PH[a.phase], a.var == F_THROW ? "failed check (throwing)" : a.var == F_LONGJMP ? "failed check (longjmp)" :
                                              a.var == F_UNEXPECTED ? "unexpected exception" : "UtestShell::addFailure without leaving the test");
    }
    return s.empty() ? std::string("none") : s;
}
std::string real_str(const RealTest& rt) {
    std::string s = "[";
    if (g_opt.route == ROUTE_BUILD_SCRIPT) s += rt.entry == ENTER_ORDERED ? sfmt("via %s level %d: ", ENTRY[rt.entry], rt.level) : sfmt("via %s: ", ENTRY[rt.entry]);
    else if (g_opt.route != ROUTE_REGISTRY) s += sfmt("%s%s ", rt.ignored ? "IGNORE_TEST" : "TEST", rt.flag ? "+separate-flag" : "");
    for (int i = 0; i < rt.nact; i++) { if (i) s += "; "; s += act_str(rt.acts[i]); }
    if (rt.eintr[0] || rt.eintr[1]) s += sfmt(" | EINTR x%d before the 1st wait, x%d before the 2nd", rt.eintr[0], rt.eintr[1]);
    return s + "]";
}
std::string stub_str(const StubTest& st) {
    if (st.fork_fail) return sfmt("[fork fails errno=%d]", st.fork_errno);
    std::string s = "[";
    for (size_t i = 0; i < st.segs.size(); i++) {
        const Seg& g = st.segs[i];
        if (i) s += "; ";
        s += g.eintr < 0 ? std::string("EINTR forever") : sfmt("EINTR x%d", g.eintr);
        switch (g.ev) {
        case E_EXIT: s += sfmt(", exited(%d)", g.arg); break;
        case E_SIGNALED: s += sfmt(", signalled(%d%s)", g.arg, g.core ? ",core" : ""); break;
        case E_STOPPED: s += sfmt(", stopped(%d)", g.arg); break;
        case E_CONTINUED: s += ", continued"; break;
        default: s += sfmt(", error(errno=%d)", g.arg); break;
        }
    }
    return s + "]";
}

void reset_program_state() {
    g_forks = 0; g_pids.clear(); g_last_pid = -1; g_waitlog.clear(); g_flag_sig.clear(); g_flag_msg.clear();
    memset(g_env_fork_failed, 0, sizeof g_env_fork_failed);
    memset(g_stage, 0, sizeof g_stage); memset(g_last_was_stop, 0, sizeof g_last_was_stop);
    memset(g_seg_idx, 0, sizeof g_seg_idx); memset(g_terminal_delivered, 0, sizeof g_terminal_delivered);
    memset(g_stub_calls, 0, sizeof g_stub_calls); memset(g_sigcont_at_start, 0, sizeof g_sigcont_at_start);
    memset((void*)g_sh, 0, sizeof *g_sh);
    memset(g_ticks_of, 0, sizeof g_ticks_of); memset(g_killed_by_ticks, 0, sizeof g_killed_by_ticks);
    g_parent = getpid();
    verif::fake_millis_value = 0;
}

class C11Runner : public CommandLineTestRunner {
public:
    C11Runner(int ac, const char* const* av, TestRegistry* r) : CommandLineTestRunner(ac, av, r) {}
    TestOutput* createConsoleOutput() CPPUTEST_OVERRIDE { return new RecOutput; }   // deleted by the runner
};

void default_opts() { memset(&g_opt, 0, sizeof g_opt); g_opt.route = ROUTE_REGISTRY; g_opt.reg_flag = true; g_opt.repeat = 1; }

struct Program {
    RecOutput out;
    TestRegistry registry;
    C11Plugin plugin;
    std::vector<UtestShell*> shells;
    bool parent_exception;
    int runner_rc;
    std::string args;
    std::vector<int> order;          // the tests as they are linked in the registry when the run starts
    bool list_ok;
    void enter(int t) {
        UtestShell* sh;
        switch (g_real[t].entry) {
        default: sh = new C11Shell(t); registry.addTest(sh); break;
        case ENTER_INSTALLER: { sh = new C11Shell(t); TestInstaller inst(*sh, "c11", TNAME[t], "c11_file.cpp", (size_t)(100 + t)); break; }
        case ENTER_ORDERED: { C11OrderedShell* o = new C11OrderedShell(t); sh = o;
                              OrderedTestInstaller inst(*o, "c11", TNAME[t], "c11_file.cpp", (size_t)(100 + t), g_real[t].level); break; }
        case ENTER_ADD_UNDO_ADD: sh = new C11Shell(t); registry.addTest(sh); registry.unDoLastAddTest(); registry.addTest(sh); break;
        }
        shells.push_back(sh);
    }
    void build_by_script(int n) {
        registry.setCurrentRegistry(&registry);                // TestInstaller and OrderedTestInstaller work on the current registry
        OrderedTestShell::setOrderedTestHead(NULLPTR);
        registry.installPlugin(&plugin);
        for (int t = 0; t <= n; t++) {
            if (t == g_opt.enable_at) registry.setRunTestsInSeperateProcess();
            if (t < n) enter(t);
        }
        for (int k = 0; k < g_opt.nops; k++) {
            if (g_opt.ops[k] == OP_REVERSE) registry.reverseTests();
            else if (g_opt.ops[k] == OP_SHUFFLE) registry.shuffleTests((size_t)g_opt.op_seed[k]);
            else if (g_opt.ops[k] == OP_UNDO_READD) { UtestShell* first = registry.getFirstTest(); if (first) { registry.unDoLastAddTest(); registry.addTest(first); } }
        }
        OrderedTestShell::setOrderedTestHead(NULLPTR);
        registry.setCurrentRegistry(NULLPTR);
    }
    void read_order(int n) {
        std::vector<int> seen((size_t)n, 0);
        list_ok = true;
        int guard = 0;
        for (UtestShell* u = registry.getFirstTest(); u && guard < 4 * MAXT; u = u->getNext(), guard++) {
            int t = index_of(*u);
            if (t < 0 || t >= n || seen[(size_t)t]) { list_ok = false; break; }
            seen[(size_t)t] = 1; order.push_back(t);
        }
        if ((int)order.size() != n) list_ok = false;
    }
    explicit Program(int n) : parent_exception(false), runner_rc(-1), list_ok(true) {
        if (g_opt.route == ROUTE_BUILD_SCRIPT) { build_by_script(n); read_order(n); return; }
        for (int t = 0; t < n; t++) {
            UtestShell* sh = g_real[t].ignored ? static_cast<UtestShell*>(new C11IgnoredShell(t)) : static_cast<UtestShell*>(new C11Shell(t));
            if (g_opt.route == ROUTE_PER_TEST && g_real[t].flag) sh->setRunInSeperateProcess();
            shells.push_back(sh);
        }
        for (int t = n - 1; t >= 0; t--) registry.addTest(shells[(size_t)t]);     // addTest prepends
        registry.installPlugin(&plugin);
        if (g_opt.route != ROUTE_COMMAND_LINE) {
            if (g_opt.reg_flag) registry.setRunTestsInSeperateProcess();
            if (g_opt.run_ignored) registry.setRunIgnored();
        }
        read_order(n);
    }
    ~Program() { for (size_t i = 0; i < shells.size(); i++) delete shells[i]; }
    void run() {
        g_runs.clear();
        try {
            if (g_opt.route == ROUTE_COMMAND_LINE) {
                std::vector<const char*> av;
                av.push_back("c11"); av.push_back("-p");
                if (g_opt.run_ignored) av.push_back("-ri");
                if (g_opt.verbose) av.push_back("-v");
                if (g_opt.crash_on_fail) av.push_back("-f");
                if (!g_opt.rethrow) av.push_back("-e");
                if (g_opt.repeat_sel == 1) av.push_back("-r2");
                if (g_opt.repeat_sel == 2) av.push_back("-r3");
                if (g_opt.repeat_sel == 3) av.push_back("-r");      // bare: twice; last, so that it cannot swallow an argument
                for (size_t i = 0; i < av.size(); i++) { args += av[i]; args += " "; }
                C11Runner runner((int)av.size(), av.data(), &registry);
                runner_rc = runner.runAllTestsMain();
            } else {
                TestResult result(out);
                registry.runAllTests(result);
            }
        }
        catch (...) { if (g_in_child) _exit(GUARD_THROW); parent_exception = true; }
        if (g_in_child) _exit(GUARD_LATE);     // last line of defence: a child never returns into the engine
        stop_ticks();
        UtestShell::restoreDefaultTestTerminator();    // -f and the rethrow switch are process-wide statics
        UtestShell::setRethrowExceptions(false);
    }
    std::vector<Tok> toks_of(int rep, int t) const {
        std::vector<Tok> v;
        const Run& r = g_runs[(size_t)rep];
        for (size_t i = 0; i < r.recs.size(); i++) if (r.recs[i].test == TNAME[t]) v.push_back(classify(r.recs[i].msg));
        return v;
    }
};

// counts of every repetition; tests_run / tests_ignored: how many tests the model says run / are skipped as ignored
int check_totals(const Program& p, int ntests, int tests_run, int tests_ignored) {
    V_CHECK(!p.parent_exception, "C11:exception-in-parent", "an exception left runAllTests in the parent process");
    V_CHECK(g_forks == g_plan_n, "C11:later-test-not-run", "%d children expected (tests to run in a separate process x repetitions), the fork seam was called %d times", g_plan_n, g_forks);
    V_CHECK((int)g_runs.size() == g_opt.repeat, "C11:repetitions", "%d repetitions requested (%s), %zu executed", g_opt.repeat, p.args.c_str(), g_runs.size());
    size_t total = 0;
    for (int rep = 0; rep < g_opt.repeat; rep++) {
        const Run& r = g_runs[(size_t)rep];
        V_CHECK(r.finished && (int)r.started.size() == ntests && (int)r.ended == ntests && (int)r.runs == tests_run && (int)r.tests == ntests && (int)r.ignored == tests_ignored,
                "C11:later-test-not-run", "repetition %d: %d tests registered, %d to run, %d ignored; started %zu, ended %zu, run count %zu, test count %zu, ignored count %zu, finished %d",
                rep, ntests, tests_run, tests_ignored, r.started.size(), r.ended, r.runs, r.tests, r.ignored, (int)r.finished);
        for (int t = 0; t < ntests; t++)
            V_CHECK(r.started[(size_t)t] == TNAME[p.order[(size_t)t]], "C11:later-test-not-run", "repetition %d: test #%d started is %s, the list has %s there", rep, t, r.started[(size_t)t].c_str(), TNAME[p.order[(size_t)t]]);
        for (size_t i = 0; i < r.recs.size(); i++) {
            bool ok = false;
            for (int t = 0; t < ntests; t++) if (r.recs[i].test == TNAME[t]) ok = true;
            V_CHECK(ok, "C11:failure-attributed-to-unknown-test", "failure '%s' recorded for test '%s'", r.recs[i].msg.c_str(), r.recs[i].test.c_str());
        }
        V_CHECK(r.failures == r.recs.size(), "C11:failure-count", "repetition %d: failure count %zu but %zu failures were reported", rep, r.failures, r.recs.size());
        V_CHECK(r.is_failure == (!r.recs.empty() || tests_run + tests_ignored == 0), "C11:overall-verdict", "repetition %d: isFailure() is %d with %zu recorded failures", rep, (int)r.is_failure, r.recs.size());
        total += r.recs.size();
    }
    if (g_opt.route == ROUTE_COMMAND_LINE)
        V_CHECK((p.runner_rc != 0) == (total != 0), "C11:overall-verdict", "the command line runner (%s) returned %d with %zu recorded failures", p.args.c_str(), p.runner_rc, total);
    return 0;
}

// no child may be left behind (zombie, running or stopped); cleans up when there is one
int check_no_children_left() {
    int st = 0;
    pid_t w = waitpid(-1, &st, WNOHANG);
    if (w == -1 && errno == ECHILD) return 0;
    std::string what = w > 0 ? sfmt("zombie %d (status 0x%x) had not been reaped", (int)w, st) : std::string("a child is still running or stopped");
    for (size_t i = 0; i < g_pids.size(); i++) kill(g_pids[i], SIGKILL);
    while (waitpid(-1, &st, 0) > 0 || errno == EINTR) {}
    return verif::fail("C11:child-left-behind", "after the run: %s", what.c_str());
}

// evidence only (never part of a verdict): which cells of the two small sub-spaces "signal 1..31 or abort() x point" and
// "exit status 0..255 x point" this process has executed and judged; the class is counted once, when a table is full
uint8_t g_seen_sig[NPHASE][32], g_seen_exit[NPHASE][256];
int g_seen_sig_n, g_seen_exit_n;
void note_enumeration(int ntests) {
    for (int t = 0; t < ntests; t++) {
        const RealTest& rt = g_real[t];
        if (!test_runs(rt) || !test_separate(rt)) continue;
        for (int ai = 0; ai < rt.nact; ai++) {
            const Act& a = rt.acts[ai];
            if (!g_sh->acted[t][ai]) continue;
            if (a.kind == K_SIGNAL || a.kind == K_ABORT) {
                uint8_t& c = g_seen_sig[a.phase][a.kind == K_ABORT ? 0 : a.arg];
                if (!c) { c = 1; if (++g_seen_sig_n == NPHASE * 32) verif::cls("enum:signals-1..31+abort-x-5-points-complete-in-one-worker(160)"); }
            } else if (a.kind == K_EXIT) {
                uint8_t& c = g_seen_exit[a.phase][a.arg];
                if (!c) { c = 1; if (++g_seen_exit_n == NPHASE * 256) verif::cls("enum:exit-status-0..255-x-5-points-complete-in-one-worker(1280)"); }
            }
        }
    }
}

// ---- part (a) ---------------------------------------------------------------------------------------------------------
int run_real_program(int ntests, bool& nontrivial) {
    reset_program_state();
    g_ntests = ntests;
    int tests_run = 0, tests_ignored = 0;
    for (int t = 0; t < ntests; t++) { if (test_runs(g_real[t])) tests_run++; else tests_ignored++; }
    int rc = 0;
    {
        Program p(ntests);
        if (!p.list_ok) {     // the list the library linked is not a permutation of the tests: order and linking are C02's subject
            rc = verif::fail("C11:harness-test-list", "the registry's list does not contain every test exactly once after the build script (%zu of %d)", p.order.size(), ntests);
            return rc;
        }
        g_plan_n = 0;
        for (int rep = 0; rep < g_opt.repeat; rep++)
            for (int i = 0; i < ntests; i++) {
                int t = p.order[(size_t)i];
                if (test_runs(g_real[t]) && test_separate(g_real[t])) {
                    g_eintr_left[g_plan_n][0] = g_real[t].eintr[0]; g_eintr_left[g_plan_n][1] = g_real[t].eintr[1];
                    g_plan[g_plan_n++] = t;
                }
            }
        PlatformSpecificFork = real_fork_seam;
        PlatformSpecificWaitPid = real_waitpid_seam;
        p.run();
        PlatformSpecificFork = g_orig_fork;
        PlatformSpecificWaitPid = g_orig_waitpid;

        rc = [&]() -> int {
            if (!g_flag_sig.empty()) return verif::fail(g_flag_sig.c_str(), "%s", g_flag_msg.c_str());
            V_CHECK(!g_sh->wrong_child, "C11:child-runs-wrong-test", "a child process executed a test it was not created for (or a test that is to run in the parent process)");
            if (int r = check_totals(p, ntests, tests_run, tests_ignored)) return r;
            int f = 0;    // ordinal of the child
            for (int rep = 0; rep < g_opt.repeat; rep++)
            for (int i = 0; i < ntests; i++) {
                const int t = p.order[(size_t)i];
                const RealTest& rt = g_real[t];
                std::vector<Tok> got = p.toks_of(rep, t);
                std::string ctx = sfmt("%s%st%d %s", p.args.c_str(), g_opt.repeat > 1 ? sfmt("repetition %d ", rep).c_str() : "", t, real_str(rt).c_str());
                if (!test_runs(rt)) {     // IGNORE_TEST without run-ignored: counted as ignored, never executed, no child
                    V_CHECK(got.empty(), "C11:records-for-ignored-test", "%s: ignored test, parent recorded %s", ctx.c_str(), toks_str(got).c_str());
                    for (int ph = 0; ph < NPHASE; ph++)
                        V_CHECK(!g_sh->reached[t][ph], "C11:ignored-test-executed", "%s: point '%s' of an ignored test was executed", ctx.c_str(), PH[ph]);
                    continue;
                }
                if (test_inproc(rt)) {    // no separate-process flag reaches this test: it runs in the parent, every failure is recorded as it is
                    Expect e = model_child(rt, true, false);
                    std::vector<Tok> want;
                    for (int k = 0; k < e.child_failures; k++) { Tok x = {R_INPROC, 0}; want.push_back(x); }
                    V_CHECK(same(got, want), "C11:records-for-in-process-test", "%s: test without the separate-process flag; parent recorded %s, expected %s", ctx.c_str(),
                            toks_str(got).c_str(), toks_str(want).c_str());
                    for (int ph = 0; ph < NPHASE; ph++)
                        V_CHECK(g_sh->reached[t][ph] == e.reach[ph], "C11:child-progress", "%s: point '%s' %s, model says %s", ctx.c_str(), PH[ph],
                                g_sh->reached[t][ph] ? "reached" : "not reached", e.reach[ph] ? "reached" : "not reached");
                    continue;
                }
                int fo = f++;
                if (g_env_fork_failed[fo]) {   // the machine refused a process: the documented record is the fork failure
                    verif::observe("fork() really failed in part (a); judged by the fork-failure rule");
                    V_CHECK(got.size() == 1 && got[0].kind == R_FORK, "C11:records-for-fork-failure", "%s: fork failed, records %s", ctx.c_str(), toks_str(got).c_str());
                    continue;
                }
                Expect e = model_child(rt, false, g_opt.crash_on_fail);
                if (e.dies_outside_body || rt.eintr[0] + rt.eintr[1] > 0) nontrivial = true;
                // what the kernel reported to the parent for this child
                int stops_seen = 0, finals_seen = 0, final_status = 0, eintr_seen = 0;
                for (size_t i = 0; i < g_waitlog.size(); i++) {
                    const WaitEntry& w = g_waitlog[i];
                    if (w.test != fo) continue;
                    if (w.ret < 0) { if (w.err == EINTR) eintr_seen++; continue; }
                    if (WIFSTOPPED(w.status)) stops_seen++;
                    else if (WIFEXITED(w.status) || WIFSIGNALED(w.status)) { finals_seen++; final_status = w.status; }
                }
                if (e.blocks) {
                    // (how far the child got when the parent gave up depends on scheduling and is not judged)
                    // the child lives until somebody kills it and the parent's waitpid is really interrupted every millisecond:
                    // "interrupted waits are retried a bounded number of times instead of hanging" (A.4: exactly one record)
                    nontrivial = true;
                    V_CHECK(!g_killed_by_ticks[fo], "C11:interrupted-wait-retried-without-bound",
                            "%s: the parent was still waiting after %d real interruptions of waitpid (the seam saw %d EINTR returns); the harness had to kill the child; parent recorded %s",
                            ctx.c_str(), g_ticks_of[fo], eintr_seen, toks_str(got).c_str());
                    std::vector<Tok> want; Tok gu = {R_GIVEUP, 0}; want.push_back(gu);
                    V_CHECK(same(got, want), "C11:records-for-interrupted-wait", "%s: %d real EINTR returns, %d timer signals; parent recorded %s, expected %s", ctx.c_str(),
                            eintr_seen, g_ticks_of[fo], toks_str(got).c_str(), toks_str(want).c_str());
                    V_CHECK(eintr_seen > EINTR_TOLERATED, "C11:interrupted-wait-given-up-early", "%s: gave up after only %d real EINTR results (at least %d must be absorbed)",
                            ctx.c_str(), eintr_seen, EINTR_TOLERATED);
                    V_CHECK(finals_seen == 0, "C11:harness-child-status", "%s: a blocking child was reported as terminated (status 0x%x)", ctx.c_str(), final_status);
                    continue;
                }
                if (e.crash_abort && finals_seen == 1 && !(WIFSIGNALED(final_status) && WTERMSIG(final_status) == SIGABRT)) {
                    // -f is there to make a failed check abort the child; whether it does is not C11's matter.  When the child did
                    // not die there, it is judged as a child that failed a check in the ordinary way.
                    verif::observe("with -f (crash on fail) a failed check did not abort the child; judged as an ordinary failed check");
                    e = model_child(rt, false, false);
                }
                // harness self-check: the child did what the model says (else the case is an artefact, not a verdict)
                // fewer stop reports than SIGSTOPs the child raised: a stop was cancelled before the parent waited for it, which only a
                // SIGCONT that no stop report called for can do (the child never continues itself) -> the stop event is lost for the parent
                V_CHECK(stops_seen >= e.stops, "C11:records-for-stopped-child",
                        "%s: the child stopped itself %d time(s) with SIGSTOP but only %d stop(s) were ever reported to the waiting parent (a stop was cancelled by a SIGCONT sent without a stop report); parent recorded %s",
                        ctx.c_str(), e.stops, stops_seen, toks_str(got).c_str());
                V_CHECK(stops_seen <= e.stops + e.maybe, "C11:harness-child-stop-count",
                        "%s: kernel reported %d stops, model expects %d..%d", ctx.c_str(), stops_seen, e.stops, e.stops + e.maybe);
                for (int ph = 0; ph < NPHASE; ph++)
                    V_CHECK(g_sh->reached[t][ph] == e.reach[ph], "C11:child-progress", "%s: point '%s' %s in the child, model says %s",
                            ctx.c_str(), PH[ph], g_sh->reached[t][ph] ? "reached" : "not reached", e.reach[ph] ? "reached" : "not reached");
                for (int ai = 0; ai < rt.nact; ai++)
                    V_CHECK(g_sh->acted[t][ai] == e.acted[ai], "C11:child-progress", "%s: action #%d %s, model says %s",
                            ctx.c_str(), ai, g_sh->acted[t][ai] ? "executed" : "not executed", e.acted[ai] ? "executed" : "not executed");
                if (finals_seen == 1 && e.status_by_code && WIFEXITED(final_status)) {
                    // the child ran to its end: its exit status is the verdict the code under test hands to the parent, so a
                    // wrong zero / non-zero here is a violation of the property, whatever the parent makes of it
                    int k = WEXITSTATUS(final_status);
                    if (e.child_failures > 0 && k == 0)
                        return verif::fail("C11:records-for-failed-child", "%s: the child recorded %d failure(s) (%s) and still exited 0, so the parent cannot record the test as failed; parent records %s",
                                           ctx.c_str(), e.child_failures, failure_routes(rt, e).c_str(), toks_str(got).c_str());
                    if (e.child_failures == 0 && k != 0)
                        return verif::fail("C11:records-for-clean-child", "%s: the child completed without any failure and exited %d; parent records %s",
                                           ctx.c_str(), k, toks_str(got).c_str());
                } else if (finals_seen == 1 && !e.status_by_code) {
                    // the status was produced by the harness's own action (_exit / raise / abort / guard) or by the crash-on-fail abort
                    bool match = e.final_signal ? (WIFSIGNALED(final_status) && WTERMSIG(final_status) == e.final_arg)
                                                : (WIFEXITED(final_status) && WEXITSTATUS(final_status) == e.final_arg);
                    V_CHECK(match, "C11:harness-child-status", "%s: kernel status 0x%x, model expects %s %d", ctx.c_str(),
                            final_status, e.final_signal ? "signal" : "exit", e.final_arg);
                }
                if (e.guard_ret) verif::observe("a longjmp-style failure in a plugin action makes the child return from runOneTest into the copied parent frame (harness guard _exit(201)); a real runner's child would go on running the remaining tests itself");
                if (e.guard_throw) verif::observe("a throwing failure in a plugin action (or, with rethrow on, an unexpected exception in a test) leaves runOneTest in the child as an exception (harness guard _exit(202)); a real runner's child would std::terminate");
                // the property: records in the parent
                std::vector<Tok> want;
                for (int k = 0; k < stops_seen; k++) { Tok s = {R_STOPPED, 0}; want.push_back(s); }
                if (e.final_signal) { Tok k = {R_KILLED, e.final_arg}; want.push_back(k); }
                else if (e.final_arg != 0) { Tok k = {R_FAILED, 0}; want.push_back(k); }
                if (!same(got, want)) {
                    const char* sig = e.final_signal ? "C11:records-for-signalled-child"
                                    : (e.stops + e.maybe > 0 && (int)std::count_if(got.begin(), got.end(), [](const Tok& x) { return x.kind == R_STOPPED; }) != stops_seen) ? "C11:records-for-stopped-child"
                                    : e.final_arg != 0 ? "C11:records-for-failed-child" : "C11:records-for-clean-child";
                    return verif::fail(sig, "%s (%d EINTR seen, %d stops seen): parent recorded %s, expected %s", ctx.c_str(), eintr_seen, stops_seen,
                                       toks_str(got).c_str(), toks_str(want).c_str());
                }
                V_CHECK(finals_seen == 1, "C11:child-not-waited-for", "%s: the parent saw %d terminal statuses for the child", ctx.c_str(), finals_seen);
            }
            return 0;
        }();
    }
    int rz = check_no_children_left();
    if (rc == 0 && rz == 0 && verif::g_counting) note_enumeration(ntests);
    return rc ? rc : rz;
}

// ---- part (b) ---------------------------------------------------------------------------------------------------------
int run_stub_program(int ntests, bool& nontrivial) {
    reset_program_state();
    g_ntests = ntests;
    default_opts();
    memset(g_real, 0, sizeof g_real);
    g_plan_n = ntests;
    for (int t = 0; t < ntests; t++) { g_plan[t] = t; g_seg_eintr_left[t] = g_stub[t].fork_fail ? 0 : g_stub[t].segs[0].eintr; }
    g_sigcont_seen = 0;
    struct sigaction sa, old; memset(&sa, 0, sizeof sa); sa.sa_handler = on_sigcont; sigemptyset(&sa.sa_mask);
    sigaction(SIGCONT, &sa, &old);
    Program p(ntests);
    PlatformSpecificFork = stub_fork_seam;
    PlatformSpecificWaitPid = stub_waitpid_seam;
    p.run();
    PlatformSpecificFork = g_orig_fork;
    PlatformSpecificWaitPid = g_orig_waitpid;
    g_sigcont_at_start[ntests] = (int)g_sigcont_seen;
    sigaction(SIGCONT, &old, NULL);

    if (!g_flag_sig.empty()) return verif::fail(g_flag_sig.c_str(), "%s", g_flag_msg.c_str());
    if (int r = check_totals(p, ntests, ntests, 0)) return r;
    for (int t = 0; t < ntests; t++) {
        const StubTest& st = g_stub[t];
        std::vector<Tok> got = p.toks_of(0, t), want;
        if (st.fork_fail) {
            Tok f = {R_FORK, 0}; want.push_back(f);
            V_CHECK(same(got, want), "C11:records-for-fork-failure", "t%d %s: parent recorded %s, expected %s", t, stub_str(st).c_str(), toks_str(got).c_str(), toks_str(want).c_str());
            V_CHECK(g_stub_calls[t] == 0, "C11:waitpid-after-failed-fork", "t%d: %d waitpid calls after the failed fork", t, g_stub_calls[t]);
            continue;
        }
        int eintr_total = 0, stops = 0; bool terminal = false;
        for (size_t i = 0; i < g_waitlog.size(); i++) {
            const WaitEntry& w = g_waitlog[i];
            if (w.test != t) continue;
            if (w.ret < 0 && w.err == EINTR) { eintr_total++; continue; }
            if (w.ret < 0) { Tok k = {R_WAIT, 0}; want.push_back(k); terminal = true; continue; }
            if (WIFSTOPPED(w.status)) { Tok k = {R_STOPPED, 0}; want.push_back(k); stops++; }
            else if (WIFSIGNALED(w.status)) { Tok k = {R_KILLED, WTERMSIG(w.status)}; want.push_back(k); terminal = true; }
            else if (WIFEXITED(w.status)) { if (WEXITSTATUS(w.status) != 0) { Tok k = {R_FAILED, 0}; want.push_back(k); } terminal = true; }
        }
        if (eintr_total > 0) nontrivial = true;
        bool gave_up = !got.empty() && got.back().kind == R_GIVEUP;
        if (!terminal) {
            // the wait ended before the child's fate was known: only allowed by giving up after more than the tolerated EINTR results
            V_CHECK(gave_up, "C11:child-abandoned", "t%d %s: the parent stopped waiting after %d calls (%d EINTR) without a terminal status and without reporting it; records %s",
                    t, stub_str(st).c_str(), g_stub_calls[t], eintr_total, toks_str(got).c_str());
            V_CHECK(eintr_total > EINTR_TOLERATED, "C11:interrupted-wait-given-up-early", "t%d %s: gave up after only %d EINTR results (at least %d must be absorbed)",
                    t, stub_str(st).c_str(), eintr_total, EINTR_TOLERATED);
            Tok k = {R_GIVEUP, 0}; want.push_back(k);
        }
        V_CHECK(same(got, want), "C11:records-for-wait-script", "t%d %s: delivered %d EINTR; parent recorded %s, expected %s", t, stub_str(st).c_str(), eintr_total,
                toks_str(got).c_str(), toks_str(want).c_str());
        int conts = g_sigcont_at_start[t + 1] - g_sigcont_at_start[t];
        V_CHECK(conts == stops, "C11:stopped-child-not-continued", "t%d %s: %d stop reports, %d SIGCONT sent to the child", t, stub_str(st).c_str(), stops, conts);
    }
    return 0;
}

// ---- decoder ------------------------------------------------------------------------------------------------------------
const int PHASE_SEL[NPHASE] = {BODY, SETUP, TEARDOWN, PRE, POST};
const int KIND_SEL[16] = {K_NOTHING, K_FAIL, K_EXIT, K_SIGNAL, K_ABORT, K_EXIT, K_SIGNAL, K_SIGNAL,       // 0..7: the original table (corpus files keep their meaning)
                          K_PRINT, K_FAIL, K_EXIT, K_SIGNAL, K_PRINT, K_ABORT, K_SIGNAL, K_EXIT};
const int EXIT_LATTICE[8] = {0, 1, 2, 126, 127, 128, 254, 255};
const int FORK_ERRNO[3] = {EAGAIN, ENOMEM, ENOSYS};
const int WAIT_ERRNO[5] = {ECHILD, EINVAL, EFAULT, ESRCH, EAGAIN};
const int STOP_SIGS[4] = {SIGSTOP, SIGTSTP, SIGTTIN, SIGTTOU};
const int TERM_SIGS[4] = {SIGABRT, SIGKILL, SIGSEGV, SIGTERM};

void decode_real(Reader& r, int ntests, std::string& desc) {
    for (int t = 0; t < ntests; t++) {
        RealTest& rt = g_real[t]; memset(&rt, 0, sizeof rt);
        rt.nact = 1 + (int)r.below(2);
        for (int ai = 0; ai < rt.nact; ai++) {
            Act& a = rt.acts[ai];
            a.phase = PHASE_SEL[r.below(NPHASE)];
            uint32_t ks = r.below(16);
            a.kind = KIND_SEL[ks];
            if (a.kind == K_FAIL) { uint32_t fs = r.below(8); a.var = FAIL_SEL[fs]; a.arg = (fs == 4 || fs == 7) ? 1 : 0; }
            else if (a.kind == K_EXIT) a.arg = (ks == 5 || ks == 15) ? r.pick(EXIT_LATTICE) : (int)r.u8();
            else if (a.kind == K_SIGNAL) a.arg = ks == 7 ? r.pick(STOP_SIGS) : 1 + (int)r.below(31);
        }
        switch (r.below(4)) {
        default: break;
        case 1: rt.eintr[0] = 1 + (int)r.below(EINTR_TOLERATED); break;
        case 2: { int total = 1 + (int)r.below(EINTR_TOLERATED); rt.eintr[0] = (int)r.below((uint32_t)total + 1); rt.eintr[1] = total - rt.eintr[0]; break; }
        case 3: rt.eintr[1] = 1 + (int)r.below(EINTR_TOLERATED); break;
        }
        if (g_opt.route == ROUTE_BUILD_SCRIPT) {
            rt.entry = (int)r.below(4);
            if (rt.entry == ENTER_ORDERED) rt.level = (int)r.below(8);
        } else if (g_opt.route != ROUTE_REGISTRY) {      // one more byte per test, only on the new routes (old inputs keep their layout)
            uint32_t shape = r.below(4);
            rt.ignored = shape >= 2;
            rt.flag = g_opt.route == ROUTE_PER_TEST && (shape == 0 || shape == 2);
        }
        if (test_inproc(rt)) {
            // this test runs inside the harness process: events that end a process are replaced by printing, failures that
            // leave a plugin action (no C11 matter in the parent) by recorded-only ones
            for (int ai = 0; ai < rt.nact; ai++) {
                Act& a = rt.acts[ai];
                if (a.kind == K_EXIT || a.kind == K_SIGNAL || a.kind == K_ABORT) { a.kind = K_PRINT; a.arg = 0; }
                if (a.kind == K_FAIL && (a.phase == PRE || a.phase == POST)) a.var = F_ADDONLY;
            }
            rt.eintr[0] = rt.eintr[1] = 0;
        }
        desc += sfmt(" t%d%s", t, real_str(rt).c_str());
    }
}

// how the separate-process flag reaches the tests (bits 1-2 of the first byte) and the program-level switches
void decode_opts(Reader& r, uint8_t m, int ntests, std::string& desc) {
    default_opts();
    int route = (m >> 1) & 3;
    g_opt.route = route;
    if (route == ROUTE_REGISTRY) return;
    if (route == ROUTE_BUILD_SCRIPT) {
        g_opt.enable_at = (int)r.below((uint32_t)ntests + 1);          // 0: before any test is in the list
        desc += sfmt(" {list built by script; mode switched on after %d of %d tests entered", g_opt.enable_at, ntests);
        return;                                                        // the operations follow the tests (decode_ops)
    }
    uint8_t P = r.u8();
    if (route == ROUTE_PER_TEST) {
        g_opt.reg_flag = (P & 1) != 0; g_opt.run_ignored = (P & 2) != 0;
        desc += sfmt(" {flags on single tests%s%s}", g_opt.reg_flag ? " + registry flag" : "", g_opt.run_ignored ? " + registry run-ignored" : "");
    } else {
        g_opt.reg_flag = true;                       // -p
        g_opt.run_ignored = (P & 1) != 0;
        g_opt.repeat_sel = (P >> 1) & 3;
        static const int REP[4] = {1, 2, 3, 2};
        g_opt.repeat = REP[g_opt.repeat_sel];
        g_opt.verbose = (P & 8) != 0; g_opt.crash_on_fail = (P & 16) != 0; g_opt.rethrow = (P & 32) == 0;
        desc += sfmt(" {CommandLineTestRunner -p%s%s%s%s%s}", g_opt.run_ignored ? " -ri" : "", g_opt.verbose ? " -v" : "", g_opt.crash_on_fail ? " -f" : "",
                     g_opt.rethrow ? "" : " -e", g_opt.repeat_sel == 1 ? " -r2" : g_opt.repeat_sel == 2 ? " -r3" : g_opt.repeat_sel == 3 ? " -r" : "");
    }
}

void decode_ops(Reader& r, std::string& desc) {
    if (g_opt.route != ROUTE_BUILD_SCRIPT) return;
    g_opt.nops = (int)r.below(4);
    desc += "; then";
    for (int k = 0; k < g_opt.nops; k++) {
        g_opt.ops[k] = 1 + (int)r.below(3);
        if (g_opt.ops[k] == OP_SHUFFLE) { g_opt.op_seed[k] = 1 + (int)r.u8(); desc += sfmt(" shuffleTests(%d)", g_opt.op_seed[k]); }
        else desc += g_opt.ops[k] == OP_REVERSE ? " reverseTests" : " unDoLastAddTest+re-add";
    }
    desc += g_opt.nops ? "}" : " run}";
}

void classes_real(int ntests) {
    verif::cls(g_opt.route == ROUTE_REGISTRY ? "a:route-registry-flag" : g_opt.route == ROUTE_PER_TEST ? "a:route-flag-on-single-tests" :
               g_opt.route == ROUTE_COMMAND_LINE ? "a:route-command-line-p" : "a:route-list-built-by-script");
    if (g_opt.route == ROUTE_BUILD_SCRIPT) {
        verif::cls(g_opt.enable_at == 0 ? "a:mode-on-before-any-test-entered" : g_opt.enable_at >= ntests ? "a:mode-on-after-all-tests-entered" : "a:mode-on-between-two-entries");
        for (int t = 0; t < ntests; t++) verif::cls(sfmt("a:enters-by-%s%s", ENTRY[g_real[t].entry], t >= g_opt.enable_at ? "-with-mode-on" : "").c_str());
        for (int k = 0; k < g_opt.nops; k++) verif::cls(g_opt.ops[k] == OP_REVERSE ? "a:op-reverseTests" : g_opt.ops[k] == OP_SHUFFLE ? "a:op-shuffleTests" : "a:op-unDoLastAddTest+re-add");
    }
    if (g_opt.route == ROUTE_PER_TEST && g_opt.reg_flag) verif::cls("a:route-flag-on-single-tests+registry-flag");
    if (g_opt.run_ignored) verif::cls("a:run-ignored");
    if (g_opt.route == ROUTE_COMMAND_LINE) {
        verif::cls(sfmt("a:repetitions-%d", g_opt.repeat).c_str());
        if (g_opt.crash_on_fail) verif::cls("a:crash-on-fail(-f)");
        if (g_opt.rethrow) verif::cls("a:rethrow-unexpected-exceptions(default)"); else verif::cls("a:no-rethrow(-e)");
        if (g_opt.verbose) verif::cls("a:verbose(-v)");
    }
    for (int t = 0; t < ntests; t++) {
        const RealTest& rt = g_real[t];
        for (int ai = 0; ai < rt.nact; ai++) {
            const Act& a = rt.acts[ai];
            static const char* const KN[7] = {"nothing", "fail", "exit", "signal", "abort", "print", "block-under-real-interruptions"};
            verif::cls(sfmt("a:%s@%s", KN[a.kind], PH[a.phase]).c_str());
            if (a.kind == K_SIGNAL) verif::cls(sfmt("a:signal-%02d", a.arg).c_str());
            if (a.kind == K_EXIT) verif::cls(a.arg == 0 ? "a:exit-0" : a.arg == 1 ? "a:exit-1" : a.arg < 128 ? "a:exit-2..127" : a.arg < 255 ? "a:exit-128..254" : "a:exit-255");
            if (a.kind == K_FAIL) {
                bool plugin = a.phase == PRE || a.phase == POST;
                verif::cls(sfmt("a:fail-%s-%s", plugin ? "plugin" : "test", (plugin && a.var >= F_UNEXPECTED) ? FV[F_ADDONLY] : FV[a.var]).c_str());
            }
        }
        if (rt.nact == 2) verif::cls("a:two-actions");
        if (g_opt.route == ROUTE_PER_TEST || g_opt.route == ROUTE_COMMAND_LINE)
            verif::cls(!test_runs(rt) ? "a:test-ignored-not-run" : test_inproc(rt) ? (rt.ignored ? "a:test-run-ignored-in-parent-process" : "a:test-in-parent-process")
                                      : (rt.ignored ? "a:test-run-ignored-in-child" : "a:test-in-child"));
        if (rt.eintr[0]) verif::cls("a:eintr-before-first-status");
        if (rt.eintr[1]) verif::cls("a:eintr-before-second-status");
    }
}

void decode_stub(Reader& r, int ntests, std::string& desc) {
    for (int t = 0; t < ntests; t++) {
        StubTest& st = g_stub[t]; st.fork_fail = false; st.fork_errno = 0; st.segs.clear();
        if (r.below(8) == 7) { st.fork_fail = true; st.fork_errno = r.pick(FORK_ERRNO); verif::cls("b:fork-error"); desc += sfmt(" t%d%s", t, stub_str(st).c_str()); continue; }
        int nseg = 1 + (int)r.below(4);
        bool terminal = false;
        for (int j = 0; j < nseg && !terminal; j++) {
            Seg g; g.core = false; g.arg = 0;
            switch (r.below(8)) {
            default: g.eintr = 0; verif::cls("b:eintr-0"); break;
            case 1: g.eintr = 1 + (int)r.below(5); verif::cls("b:eintr-1..5"); break;
            case 2: g.eintr = 6 + (int)r.below(24); verif::cls("b:eintr-6..29"); break;
            case 3: g.eintr = 30; verif::cls("b:eintr-30"); break;
            case 4: g.eintr = 31 + (int)r.below(2); verif::cls("b:eintr-31..32"); break;
            case 5: g.eintr = 33 + (int)r.below(8); verif::cls("b:eintr-33..40"); break;
            case 6: g.eintr = -1; verif::cls("b:eintr-endless"); break;
            case 7: g.eintr = 1; verif::cls("b:eintr-1..5"); break;
            }
            switch (r.below(8)) {
            default: g.ev = E_EXIT; g.arg = 0; verif::cls("b:exited-0"); break;
            case 1: g.ev = E_EXIT; g.arg = 1 + (int)r.below(255); verif::cls("b:exited-nonzero"); break;
            case 2: g.ev = E_SIGNALED; g.arg = 1 + (int)r.below(31); g.core = r.flag(); verif::cls(sfmt("b:signalled-%02d", g.arg).c_str()); break;
            case 3: g.ev = E_STOPPED; g.arg = r.flag() ? 1 + (int)r.below(31) : r.pick(STOP_SIGS); verif::cls("b:stopped"); break;
            case 4: g.ev = E_CONTINUED; verif::cls("b:continued"); break;
            case 5: g.ev = E_ERROR; g.arg = r.pick(WAIT_ERRNO); verif::cls("b:wait-error"); break;
            case 6: g.ev = E_EXIT; g.arg = 1; verif::cls("b:exited-nonzero"); break;
            case 7: g.ev = E_SIGNALED; g.arg = r.pick(TERM_SIGS); verif::cls(sfmt("b:signalled-%02d", g.arg).c_str()); break;
            }
            terminal = g.ev == E_EXIT || g.ev == E_SIGNALED || g.ev == E_ERROR;
            st.segs.push_back(g);
        }
        if (!terminal) { Seg g = {0, E_EXIT, 0, false}; st.segs.push_back(g); }
        if (st.segs.size() > 1) verif::cls("b:multi-status-script");
        desc += sfmt(" t%d%s", t, stub_str(st).c_str());
    }
}

// real interruptions of the real wait path: 1..4 tests, byte 0 = a test whose child blocks
void decode_interrupt_program(Reader& r, int ntests, std::string& desc) {
    default_opts();
    for (int t = 0; t < ntests; t++) {
        RealTest& rt = g_real[t]; memset(&rt, 0, sizeof rt);
        rt.nact = 1; Act& a = rt.acts[0]; a.phase = BODY;
        switch (r.below(4)) {
        default: a.kind = K_BLOCK; a.phase = PHASE_SEL[r.below(NPHASE)]; break;
        case 1: a.kind = K_NOTHING; break;
        case 2: a.kind = K_EXIT; a.arg = r.pick(EXIT_LATTICE); break;
        case 3: a.kind = K_SIGNAL; a.arg = 1 + (int)r.below(31); break;
        }
        desc += sfmt(" t%d%s", t, real_str(rt).c_str());
    }
}

// one completely enumerated sub-space, in programs of 8 tests
int run_enum_block(int block, bool& nontrivial, std::string& desc) {
    default_opts();
    int phase = block % NPHASE; bool exits = block >= NPHASE;
    int items = exits ? 256 : 32;
    desc = sfmt("enumeration: every %s at point '%s' (%d children)", exits ? "exit status 0..255" : "signal 1..31 and abort()", PH[phase], items);
    for (int base = 0; base < items; base += MAXT) {
        for (int t = 0; t < MAXT; t++) {
            RealTest& rt = g_real[t]; memset(&rt, 0, sizeof rt);
            rt.nact = 1; rt.acts[0].phase = phase;
            int item = base + t;
            if (exits) { rt.acts[0].kind = K_EXIT; rt.acts[0].arg = item; }
            else if (item == 0) rt.acts[0].kind = K_ABORT;
            else { rt.acts[0].kind = K_SIGNAL; rt.acts[0].arg = item; }
        }
        if (verif::g_explain) { for (int t = 0; t < MAXT; t++) fprintf(stderr, "  t%d%s", t, real_str(g_real[t]).c_str()); fprintf(stderr, "\n"); }
        if (int rc = run_real_program(MAXT, nontrivial)) return rc;
    }
    verif::cls(sfmt("enum:%s@%s-complete(%d)", exits ? "exit-status" : "signal", PH[phase], items).c_str());
    return 0;
}

}  // namespace

extern "C" const char* verif_property(void) { return "C11"; }

extern "C" void verif_init(void) {
    struct rlimit rl; rl.rlim_cur = 0; rl.rlim_max = 0;
    setrlimit(RLIMIT_CORE, &rl);                         // children die by SIGSEGV/SIGABRT/...: no core files
    verif::install_fake_time();
    g_sh = (Shared*)mmap(NULL, sizeof(Shared), PROT_READ | PROT_WRITE, MAP_SHARED | MAP_ANONYMOUS, -1, 0);
    if (g_sh == MAP_FAILED) { perror("mmap"); exit(2); }
    g_orig_fork = PlatformSpecificFork;
    g_orig_waitpid = PlatformSpecificWaitPid;
}

extern "C" int verif_case(const uint8_t* data, size_t size) {
    Reader r(data, size);
    bool nontrivial = false; std::string desc; int rc;
    uint8_t m = r.u8(), n = r.u8();
    if (m == 0xEE && n < 2 * NPHASE) {      // rare in the random search (1 in 6500 cases); the ten blocks are corpus seeds
        rc = run_enum_block((int)n, nontrivial, desc);
        if (verif::g_explain) fprintf(stderr, "%s\n", desc.c_str());
    } else if (m == 0xEB) {                  // rare (1 case in 256): costs 35-70 ms of real time per blocking test
        int ntests = 1 + (int)(n % 4);
        desc = "real interruptions:";
        decode_interrupt_program(r, ntests, desc);
        classes_real(ntests);
        verif::cls("a:programs-under-real-interruptions");
        if (verif::g_explain) fprintf(stderr, "%s\n", desc.c_str());
        rc = run_real_program(ntests, nontrivial);
    } else {
        int ntests = 1 + (int)(n % MAXT);
        if ((m & 1) == 0) {
            desc = "real:";
            decode_opts(r, m, ntests, desc);
            decode_real(r, ntests, desc);
            decode_ops(r, desc);
            classes_real(ntests);
            verif::cls("a:programs");
            if (verif::g_explain) fprintf(stderr, "%s\n", desc.c_str());
            rc = run_real_program(ntests, nontrivial);
        } else {
            desc = "stub:";
            decode_stub(r, ntests, desc);
            verif::cls("b:programs");
            if (verif::g_explain) fprintf(stderr, "%s\n", desc.c_str());
            rc = run_stub_program(ntests, nontrivial);
        }
    }
    if (g_in_child) _exit(GUARD_LATE);
    verif::note_case(nontrivial, r.h, [&] { return desc; });
    return rc;
}

extern "C" int verif_known_repro(const char*) { return -1; }
