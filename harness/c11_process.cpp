// C11 — separate-process mode contains every way a test can die.
//
// Decoder (total): first byte selects
//   even        part (a): a program of 1..8 tests run with setRunTestsInSeperateProcess() in REAL child processes; each child
//               executes 1..2 decoded actions at decoded points (plugin pre action, setup, body, teardown, plugin post
//               action): nothing / fail a check (throwing, longjmp, unexpected exception, recorded only) / _exit(k) /
//               signal(s, SIG_DFL) + raise(s), s in 1..31 / abort().  0..30 EINTR results are injected in front of the
//               real waitpid (the PlatformSpecificWaitPid seam forwards to waitpid afterwards).
//   odd         part (b): PlatformSpecificFork / PlatformSpecificWaitPid are stubs replaying a decoded outcome script per
//               test: fork error, or segments "EINTR x L (0..40 or endless), then one of exited k / signalled s /
//               stopped s / continued / error(errno)".  No process is created; the stub returns the harness's own pid.
//   0xEE, b<10  one completely enumerated sub-space in real processes: block 0..4 = every signal 1..31 and abort() at one
//               of the five points (32 children), block 5..9 = every exit status 0..255 at one point (256 children).
// Oracle: the POSIX default-action table and DESIGN.md appendix A.4 (written independently of the code under test);
//         records are read from a recording TestResult in the parent; progress of the children through their phases is
//         read from a shared page; status words seen by the parent are cross-checked against the model (harness
//         self-check, signature prefix C11:harness-).
#include "common.h"
#include <algorithm>
#include <errno.h>
#include <signal.h>
#include <unistd.h>
#include <sys/mman.h>
#include <sys/prctl.h>
#include <sys/resource.h>
#include <sys/wait.h>

using verif::Reader;
using verif::sfmt;

namespace {

enum { PRE = 0, SETUP, BODY, TEARDOWN, POST, NPHASE };
const char* const PH[NPHASE] = {"pre", "setup", "body", "teardown", "post"};
enum { K_NOTHING = 0, K_FAIL, K_EXIT, K_SIGNAL, K_ABORT };
enum { F_THROW = 0, F_LONGJMP, F_UNEXPECTED, F_ADDONLY };
const char* const FV[4] = {"throw", "longjmp", "unexpected-exception", "recorded-only"};
// reserved child statuses of the guards (appendix A.4: the child side of a fork never returns into the harness)
const int GUARD_RET = 201;      // the child returned from runOneTest (longjmp out of a plugin action into the copied parent frame)
const int GUARD_THROW = 202;    // an exception left runOneTest in the child (a real runner would std::terminate)
const int GUARD_LATE = 203;     // the child returned from runAllTests
const int GUARD_SIGRET = 204;   // raise() of a terminating signal returned
const int GUARD_ORPHAN = 205;   // the parent was gone before the child started
const int MAXT = 8, MAXA = 2;
const int EINTR_TOLERATED = 30; // "Tried 30 times": runs up to this length must be absorbed
const int STUB_CALL_CAP = 1000; // harness cap on waitpid calls for one test

enum SigClass { S_TERM, S_IGN, S_STOP, S_MAYSTOP };
SigClass sig_class(int s) {
    switch (s) {
    case SIGCHLD: case SIGCONT: case SIGURG: case SIGWINCH: return S_IGN;
    case SIGSTOP: return S_STOP;
    case SIGTSTP: case SIGTTIN: case SIGTTOU: return S_MAYSTOP;     // discarded when the process group is orphaned
    default: return S_TERM;
    }
}

struct Act { int phase, kind, var, arg; };
struct RealTest { Act acts[MAXA]; int nact; int eintr[2]; };
enum { E_EXIT = 0, E_SIGNALED, E_STOPPED, E_CONTINUED, E_ERROR };
struct Seg { int eintr; int ev; int arg; bool core; };   // eintr: 0..40, -1 endless
struct StubTest { bool fork_fail; int fork_errno; std::vector<Seg> segs; };

struct Shared { volatile uint8_t reached[MAXT][NPHASE]; volatile uint8_t acted[MAXT][MAXA]; };
Shared* g_sh;

// ---- state of the running program (parent side unless stated) ---------------------------------------------------
RealTest g_real[MAXT];
StubTest g_stub[MAXT];
int g_ntests;
bool g_in_child = false;          // true only in a forked child
pid_t g_parent;
int g_forks;                      // calls of the fork seam so far; current test = g_forks - 1
std::vector<pid_t> g_pids;
pid_t g_last_pid;
bool g_env_fork_failed[MAXT];
struct WaitEntry { int test; int ret; int err; int status; bool injected; };
std::vector<WaitEntry> g_waitlog;
int g_eintr_left[MAXT][2];
int g_stage[MAXT];
bool g_last_was_stop[MAXT];
std::string g_flag_sig, g_flag_msg;
// stub mode
size_t g_seg_idx[MAXT];
int g_seg_eintr_left[MAXT];
bool g_terminal_delivered[MAXT];
int g_stub_calls[MAXT];
volatile sig_atomic_t g_sigcont_seen;
int g_sigcont_at_start[MAXT + 1];

void flag(const char* sig, const std::string& msg) { if (g_flag_sig.empty()) { g_flag_sig = sig; g_flag_msg = msg; } }

// ---- recording result ---------------------------------------------------------------------------------------------
struct Rec { std::string test, msg; };
class RecResult : public TestResult {
public:
    std::vector<Rec> recs;
    std::vector<std::string> started, ended;
    explicit RecResult(TestOutput& o) : TestResult(o) {}
    void addFailure(const TestFailure& f) CPPUTEST_OVERRIDE {
        Rec r; r.test = f.getTestNameOnly().asCharString(); r.msg = f.getMessage().asCharString();
        recs.push_back(r);
        TestResult::addFailure(f);
    }
    void currentTestStarted(UtestShell* t) CPPUTEST_OVERRIDE { started.push_back(t->getName().asCharString()); TestResult::currentTestStarted(t); }
    void currentTestEnded(UtestShell* t) CPPUTEST_OVERRIDE { ended.push_back(t->getName().asCharString()); TestResult::currentTestEnded(t); }
};

// ---- child side ------------------------------------------------------------------------------------------------------
void do_action(int t, int ai, UtestShell* shell, TestResult* result) {
    const Act& a = g_real[t].acts[ai];
    g_sh->acted[t][ai] = 1;
    switch (a.kind) {
    default:
    case K_NOTHING: return;
    case K_FAIL:
        if (a.phase == PRE || a.phase == POST) {
            result->addFailure(TestFailure(shell, "c11 plugin failure"));
            if (a.var == F_THROW) NormalTestTerminator().exitCurrentTest();
            if (a.var == F_LONGJMP) TestTerminatorWithoutExceptions().exitCurrentTest();
            return;
        }
        switch (a.var) {
        case F_THROW: UtestShell::getCurrent()->fail("c11 failed check", __FILE__, __LINE__); return;
        case F_LONGJMP: UtestShell::getCurrent()->fail("c11 failed C check", __FILE__, __LINE__, TestTerminatorWithoutExceptions()); return;
        case F_UNEXPECTED: throw 42;
        default: UtestShell::getCurrent()->addFailure(TestFailure(UtestShell::getCurrent(), "c11 recorded failure")); return;
        }
    case K_EXIT: _exit(a.arg);
    case K_SIGNAL: {
        signal(a.arg, SIG_DFL);                       // fails for SIGKILL / SIGSTOP, whose action cannot be changed anyway
        sigset_t m; sigemptyset(&m); sigaddset(&m, a.arg); sigprocmask(SIG_UNBLOCK, &m, NULL);
        raise(a.arg);
        if (sig_class(a.arg) == S_TERM) _exit(GUARD_SIGRET);
        return;
    }
    case K_ABORT: signal(SIGABRT, SIG_DFL); abort();
    }
}

void hook(int t, int phase, UtestShell* shell, TestResult* result) {
    if (!g_in_child) {   // never execute a killing action in the harness process itself
        flag("C11:test-executed-in-parent-process", sfmt("the %s point of test t%d was executed in the parent process although separate-process mode is on", PH[phase], t));
        return;
    }
    g_sh->reached[t][phase] = 1;
    for (int ai = 0; ai < g_real[t].nact; ai++)
        if (g_real[t].acts[ai].phase == phase) do_action(t, ai, shell, result);
}

class C11Shell;
class C11Test : public Utest {
public:
    int t_; UtestShell* shell_;
    C11Test(int t, UtestShell* s) : t_(t), shell_(s) {}
    void setup() CPPUTEST_OVERRIDE { hook(t_, SETUP, shell_, NULLPTR); }
    void testBody() CPPUTEST_OVERRIDE { hook(t_, BODY, shell_, NULLPTR); }
    void teardown() CPPUTEST_OVERRIDE { hook(t_, TEARDOWN, shell_, NULLPTR); }
};
const char* const TNAME[MAXT] = {"t0", "t1", "t2", "t3", "t4", "t5", "t6", "t7"};
class C11Shell : public UtestShell {
public:
    int t_;
    explicit C11Shell(int t) : UtestShell("c11", TNAME[t], "c11_file.cpp", (size_t)(100 + t)), t_(t) {}
    Utest* createTest() CPPUTEST_OVERRIDE { return new C11Test(t_, this); }
    void destroyTest(Utest* u) CPPUTEST_OVERRIDE { delete u; }
    void runOneTest(TestPlugin* p, TestResult& r) CPPUTEST_OVERRIDE {
        try { UtestShell::runOneTest(p, r); }
        catch (...) { if (g_in_child) _exit(GUARD_THROW); throw; }
        if (g_in_child) _exit(GUARD_RET);      // guard of appendix A.4
    }
};
class C11Plugin : public TestPlugin {
public:
    C11Plugin() : TestPlugin("c11plugin") {}
    void preTestAction(UtestShell& s, TestResult& r) CPPUTEST_OVERRIDE { hook(static_cast<C11Shell&>(s).t_, PRE, &s, &r); }
    void postTestAction(UtestShell& s, TestResult& r) CPPUTEST_OVERRIDE { hook(static_cast<C11Shell&>(s).t_, POST, &s, &r); }
};

// ---- seams, part (a): real processes -------------------------------------------------------------------------------
int (*g_orig_fork)(void);
int (*g_orig_waitpid)(int, int*, int);

int real_fork_seam(void) {
    int t = g_forks++;
    if (t >= MAXT) { flag("C11:more-children-than-tests", "the fork seam was called more often than there are tests"); errno = EAGAIN; return -1; }
    pid_t p = fork();
    if (p == 0) {
        g_in_child = true;
        prctl(PR_SET_PDEATHSIG, SIGKILL);            // no stray (possibly stopped) child survives the harness
        if (getppid() != g_parent) _exit(GUARD_ORPHAN);
        return 0;
    }
    if (p > 0) { g_pids.push_back(p); g_last_pid = p; }
    else { int e = errno; g_env_fork_failed[t] = true; g_last_pid = -1; errno = e; }
    return p;
}

// state letter of /proc/<pid>/stat ('T' = stopped), 0 when unreadable
char proc_state(int pid) {
    char path[64], buf[512];
    snprintf(path, sizeof path, "/proc/%d/stat", pid);
    FILE* f = fopen(path, "r");
    if (!f) return 0;
    size_t n = fread(buf, 1, sizeof buf - 1, f);
    fclose(f);
    buf[n] = 0;
    const char* q = strrchr(buf, ')');
    return (q && q[1] == ' ') ? q[2] : 0;
}

int real_waitpid_seam(int pid, int* status, int options) {
    int t = g_forks - 1;
    if (t < 0 || t >= MAXT || g_env_fork_failed[t] || pid != g_last_pid || pid <= 0) {
        flag("C11:waitpid-on-wrong-process", sfmt("waitpid(%d, ...) called while the child of the current test is %d", pid, (int)g_last_pid));
        errno = ECHILD; return -1;
    }
    if (!(options & WUNTRACED)) {   // a stopped child would never be seen, never be continued, and the harness would hang with it
        flag("C11:wait-does-not-ask-for-stops", "waitpid called without WUNTRACED");
        options |= WUNTRACED;
    }
    int stage = g_stage[t] < 2 ? g_stage[t] : 2;
    if (stage < 2 && g_eintr_left[t][stage] > 0) {
        g_eintr_left[t][stage]--;
        WaitEntry e = {t, -1, EINTR, 0, true}; g_waitlog.push_back(e);
        errno = EINTR; return -1;
    }
    if (g_last_was_stop[t]) {
        // the stop was consumed by the previous call; if the child has no new state change to report and is still in
        // state T, nobody continued it.  (waitid alone is not enough: between exit_group() and becoming a zombie a
        // continued child reports neither "continued" nor "exited".)
        siginfo_t si; memset(&si, 0, sizeof si);
        int r = waitid(P_PID, (id_t)pid, &si, WEXITED | WSTOPPED | WCONTINUED | WNOHANG | WNOWAIT);
        if (r == 0 && si.si_pid == 0 && proc_state(pid) == 'T') {
            flag("C11:stopped-child-not-continued", sfmt("child of t%d was reported as stopped and the parent waits again without having sent SIGCONT", t));
            kill(pid, SIGCONT);   // keep the harness alive
        }
        g_last_was_stop[t] = false;
    }
    int w = waitpid(pid, status, options);
    int err = errno;
    WaitEntry e = {t, w, w < 0 ? err : 0, (w > 0 && status) ? *status : 0, false}; g_waitlog.push_back(e);
    if (w > 0) { g_stage[t]++; if (status && WIFSTOPPED(*status)) g_last_was_stop[t] = true; }
    errno = err;
    return w;
}

// ---- seams, part (b): scripted outcomes -----------------------------------------------------------------------------
void on_sigcont(int) { g_sigcont_seen++; }

int stub_fork_seam(void) {
    int t = g_forks++;
    if (t >= MAXT) { flag("C11:more-children-than-tests", "the fork seam was called more often than there are tests"); errno = EAGAIN; return -1; }
    g_sigcont_at_start[t] = (int)g_sigcont_seen;
    if (g_stub[t].fork_fail) { errno = g_stub[t].fork_errno; return -1; }
    return (int)g_parent;        // "parent side"; kill(own pid, SIGCONT) is harmless
}

int stub_waitpid_seam(int pid, int* status, int options) {
    int t = g_forks - 1;
    if (t < 0 || t >= MAXT) { errno = ECHILD; return -1; }
    StubTest& s = g_stub[t];
    g_stub_calls[t]++;
    if (s.fork_fail) {
        flag("C11:waitpid-after-failed-fork", sfmt("fork failed for t%d and the parent still called waitpid(%d, ...)", t, pid));
        if (status) *status = 0;
        return (int)g_parent;
    }
    if (pid != (int)g_parent) flag("C11:waitpid-on-wrong-process", sfmt("waitpid(%d, ...) but fork returned %d", pid, (int)g_parent));
    if (!(options & WUNTRACED)) flag("C11:wait-does-not-ask-for-stops", "waitpid called without WUNTRACED");
    if (g_terminal_delivered[t]) {
        flag("C11:waitpid-after-terminal-status", sfmt("t%d: waitpid called again after the child had been reported as terminated / the wait had failed", t));
        if (status) *status = 0;
        return (int)g_parent;
    }
    if (g_stub_calls[t] > STUB_CALL_CAP) {
        flag("C11:interrupted-wait-retried-without-bound", sfmt("t%d: more than %d waitpid calls against an endless EINTR stream", t, STUB_CALL_CAP));
        if (status) *status = 0;
        g_terminal_delivered[t] = true;
        return (int)g_parent;
    }
    if (g_seg_eintr_left[t] != 0) {
        if (g_seg_eintr_left[t] > 0) g_seg_eintr_left[t]--;
        WaitEntry e = {t, -1, EINTR, 0, true}; g_waitlog.push_back(e);
        errno = EINTR; return -1;
    }
    const Seg& sg = s.segs[g_seg_idx[t]];
    int st = 0, ret = (int)g_parent, err = 0;
    switch (sg.ev) {
    case E_EXIT: st = (sg.arg & 0xff) << 8; g_terminal_delivered[t] = true; break;
    case E_SIGNALED: st = (sg.arg & 0x7f) | (sg.core ? 0x80 : 0); g_terminal_delivered[t] = true; break;
    case E_STOPPED: st = ((sg.arg & 0xff) << 8) | 0x7f; break;
    case E_CONTINUED: st = 0xffff; break;
    default: ret = -1; err = sg.arg; g_terminal_delivered[t] = true; break;
    }
    WaitEntry e = {t, ret, err, st, false}; g_waitlog.push_back(e);
    if (!g_terminal_delivered[t]) {
        g_seg_idx[t]++;                                   // the decoder guarantees a terminal last segment
        g_seg_eintr_left[t] = s.segs[g_seg_idx[t]].eintr;
    }
    if (ret < 0) { errno = err; return -1; }
    if (status) *status = st;
    return ret;
}

// ---- records --------------------------------------------------------------------------------------------------------
enum { R_FAILED, R_KILLED, R_STOPPED, R_FORK, R_WAIT, R_GIVEUP, R_OTHER };
struct Tok { int kind; int sig; };
Tok classify(const std::string& m) {
    Tok t = {R_OTHER, 0};
    const char* k = "killed by signal ";
    size_t p = m.find(k);
    if (m.find("Failed in separate process") == 0 && p != std::string::npos) { t.kind = R_KILLED; t.sig = atoi(m.c_str() + p + strlen(k)); }
    else if (m == "Failed in separate process") t.kind = R_FAILED;
    else if (m.find("Stopped in separate process") == 0) t.kind = R_STOPPED;
    else if (m.find("fork() failed") != std::string::npos) t.kind = R_FORK;
    else if (m.find("waitpid() failed with EINTR") != std::string::npos) t.kind = R_GIVEUP;
    else if (m.find("waitpid() failed") != std::string::npos) t.kind = R_WAIT;
    return t;
}
std::string tok_str(const Tok& t) {
    switch (t.kind) {
    case R_FAILED: return "failed";
    case R_KILLED: return sfmt("killed(%d)", t.sig);
    case R_STOPPED: return "stopped";
    case R_FORK: return "fork-failed";
    case R_WAIT: return "waitpid-failed";
    case R_GIVEUP: return "eintr-giving-up";
    default: return "other";
    }
}
std::string toks_str(const std::vector<Tok>& v) { std::string s = "["; for (size_t i = 0; i < v.size(); i++) { if (i) s += ", "; s += tok_str(v[i]); } return s + "]"; }
bool same(const std::vector<Tok>& a, const std::vector<Tok>& b) {
    if (a.size() != b.size()) return false;
    for (size_t i = 0; i < a.size(); i++) if (a[i].kind != b[i].kind || a[i].sig != b[i].sig) return false;
    return true;
}

// ---- model of one child (POSIX default actions + the framework's documented phase rules) ----------------------------
struct Expect { int stops, maybe; bool final_signal; int final_arg; uint8_t reach[NPHASE]; uint8_t acted[MAXA]; bool dies_outside_body; bool guard_ret, guard_throw;
                bool status_by_code; int child_failures; };   // status_by_code: the child ran to its end, the exit status is computed by the code under test
Expect model_child(const RealTest& rt) {
    Expect e; memset(&e, 0, sizeof e);
    int child_failures = 0; bool skip_body = false, done = false;
    for (int ph = 0; ph < NPHASE && !done; ph++) {
        if (ph == BODY && skip_body) continue;
        e.reach[ph] = 1;
        for (int ai = 0; ai < rt.nact && !done; ai++) {
            const Act& a = rt.acts[ai];
            if (a.phase != ph) continue;
            e.acted[ai] = 1;
            bool leave_phase = false;
            switch (a.kind) {
            case K_NOTHING: break;
            case K_FAIL:
                child_failures++;
                if (ph == PRE || ph == POST) {
                    if (a.var == F_THROW) { e.final_signal = false; e.final_arg = GUARD_THROW; e.guard_throw = true; done = true; }
                    else if (a.var == F_LONGJMP) { e.final_signal = false; e.final_arg = GUARD_RET; e.guard_ret = true; done = true; }
                } else if (a.var != F_ADDONLY) {
                    leave_phase = true;
                    if (ph == SETUP) skip_body = true;
                }
                break;
            case K_EXIT: e.final_signal = false; e.final_arg = a.arg; done = true; if (a.arg != 0 && ph != BODY) e.dies_outside_body = true; break;
            case K_ABORT: e.final_signal = true; e.final_arg = SIGABRT; done = true; if (ph != BODY) e.dies_outside_body = true; break;
            case K_SIGNAL:
                switch (sig_class(a.arg)) {
                case S_TERM: e.final_signal = true; e.final_arg = a.arg; done = true; if (ph != BODY) e.dies_outside_body = true; break;
                case S_IGN: break;
                case S_STOP: e.stops++; break;
                case S_MAYSTOP: e.maybe++; break;
                }
                break;
            }
            if (leave_phase) break;
        }
    }
    if (!done) { e.final_signal = false; e.final_arg = child_failures > 0 ? 1 : 0; e.status_by_code = true; }
    e.child_failures = child_failures;
    return e;
}

std::string failure_routes(const RealTest& rt, const Expect& e);
std::string act_str(const Act& a) {
    switch (a.kind) {
    case K_FAIL: return sfmt("%s:fail(%s)", PH[a.phase], ((a.phase == PRE || a.phase == POST) && a.var >= F_UNEXPECTED) ? FV[F_ADDONLY] : FV[a.var]);
    case K_EXIT: return sfmt("%s:_exit(%d)", PH[a.phase], a.arg);
    case K_SIGNAL: return sfmt("%s:raise(%d)", PH[a.phase], a.arg);
    case K_ABORT: return sfmt("%s:abort", PH[a.phase]);
    default: return sfmt("%s:nothing", PH[a.phase]);
    }
}
// how the failures of a child that ran to its end were recorded (for messages)
std::string failure_routes(const RealTest& rt, const Expect& e) {
    std::string s;
    for (int ai = 0; ai < rt.nact; ai++) {
        const Act& a = rt.acts[ai];
        if (a.kind != K_FAIL || !e.acted[ai]) continue;
        if (!s.empty()) s += "; ";
        if (a.phase == PRE || a.phase == POST) s += sfmt("plugin %s action: result.addFailure", PH[a.phase]);
        else s += sfmt("%s: %s", PH[a.phase], a.var == F_THROW ? "failed check (throwing)" : a.var == F_LONGJMP ? "failed check (longjmp)" :
                                              a.var == F_UNEXPECTED ? "unexpected exception" : "UtestShell::addFailure without leaving the test");
    }
    return s.empty() ? std::string("none") : s;
}
std::string real_str(const RealTest& rt) {
    std::string s = "[";
    for (int i = 0; i < rt.nact; i++) { if (i) s += "; "; s += act_str(rt.acts[i]); }
    if (rt.eintr[0] || rt.eintr[1]) s += sfmt(" | EINTR x%d before the 1st wait, x%d before the 2nd", rt.eintr[0], rt.eintr[1]);
    return s + "]";
}
std::string stub_str(const StubTest& st) {
    if (st.fork_fail) return sfmt("[fork fails errno=%d]", st.fork_errno);
    std::string s = "[";
    for (size_t i = 0; i < st.segs.size(); i++) {
        const Seg& g = st.segs[i];
        if (i) s += "; ";
        s += g.eintr < 0 ? std::string("EINTR forever") : sfmt("EINTR x%d", g.eintr);
        switch (g.ev) {
        case E_EXIT: s += sfmt(", exited(%d)", g.arg); break;
        case E_SIGNALED: s += sfmt(", signalled(%d%s)", g.arg, g.core ? ",core" : ""); break;
        case E_STOPPED: s += sfmt(", stopped(%d)", g.arg); break;
        case E_CONTINUED: s += ", continued"; break;
        default: s += sfmt(", error(errno=%d)", g.arg); break;
        }
    }
    return s + "]";
}

void reset_program_state() {
    g_forks = 0; g_pids.clear(); g_last_pid = -1; g_waitlog.clear(); g_flag_sig.clear(); g_flag_msg.clear();
    memset(g_env_fork_failed, 0, sizeof g_env_fork_failed);
    memset(g_stage, 0, sizeof g_stage); memset(g_last_was_stop, 0, sizeof g_last_was_stop);
    memset(g_seg_idx, 0, sizeof g_seg_idx); memset(g_terminal_delivered, 0, sizeof g_terminal_delivered);
    memset(g_stub_calls, 0, sizeof g_stub_calls); memset(g_sigcont_at_start, 0, sizeof g_sigcont_at_start);
    memset((void*)g_sh, 0, sizeof *g_sh);
    g_parent = getpid();
    verif::fake_millis_value = 0;
}

struct Program {
    StringBufferTestOutput out;
    RecResult result;
    TestRegistry registry;
    C11Plugin plugin;
    std::vector<C11Shell*> shells;
    bool parent_exception;
    Program(int n) : result(out), parent_exception(false) {
        for (int t = 0; t < n; t++) shells.push_back(new C11Shell(t));
        for (int t = n - 1; t >= 0; t--) registry.addTest(shells[(size_t)t]);     // addTest prepends
        registry.installPlugin(&plugin);
        registry.setRunTestsInSeperateProcess();
    }
    ~Program() { for (size_t i = 0; i < shells.size(); i++) delete shells[i]; }
    void run() {
        try { registry.runAllTests(result); }
        catch (...) { if (g_in_child) _exit(GUARD_THROW); parent_exception = true; }
        if (g_in_child) _exit(GUARD_LATE);     // last line of defence: a child never returns into the engine
    }
    std::vector<Tok> toks_of(int t) const {
        std::vector<Tok> v;
        for (size_t i = 0; i < result.recs.size(); i++) if (result.recs[i].test == TNAME[t]) v.push_back(classify(result.recs[i].msg));
        return v;
    }
};

int check_totals(const Program& p, int ntests) {
    V_CHECK(!p.parent_exception, "C11:exception-in-parent", "an exception left runAllTests in the parent process");
    V_CHECK(g_forks == ntests, "C11:later-test-not-run", "%d tests registered, the fork seam was called %d times", ntests, g_forks);
    V_CHECK((int)p.result.started.size() == ntests && (int)p.result.ended.size() == ntests && (int)p.result.getRunCount() == ntests && (int)p.result.getTestCount() == ntests,
            "C11:later-test-not-run", "%d tests registered; started %zu, ended %zu, run count %zu, test count %zu", ntests,
            p.result.started.size(), p.result.ended.size(), p.result.getRunCount(), p.result.getTestCount());
    for (int t = 0; t < ntests; t++)
        V_CHECK(p.result.started[(size_t)t] == TNAME[t], "C11:later-test-not-run", "test #%d started is %s, expected %s", t, p.result.started[(size_t)t].c_str(), TNAME[t]);
    for (size_t i = 0; i < p.result.recs.size(); i++) {
        bool ok = false;
        for (int t = 0; t < ntests; t++) if (p.result.recs[i].test == TNAME[t]) ok = true;
        V_CHECK(ok, "C11:failure-attributed-to-unknown-test", "failure '%s' recorded for test '%s'", p.result.recs[i].msg.c_str(), p.result.recs[i].test.c_str());
    }
    V_CHECK(p.result.getFailureCount() == p.result.recs.size(), "C11:failure-count", "failure count %zu but %zu failures were recorded", p.result.getFailureCount(), p.result.recs.size());
    V_CHECK(p.result.isFailure() == !p.result.recs.empty(), "C11:overall-verdict", "isFailure() is %d with %zu recorded failures", (int)p.result.isFailure(), p.result.recs.size());
    return 0;
}

// no child may be left behind (zombie, running or stopped); cleans up when there is one
int check_no_children_left() {
    int st = 0;
    pid_t w = waitpid(-1, &st, WNOHANG);
    if (w == -1 && errno == ECHILD) return 0;
    std::string what = w > 0 ? sfmt("zombie %d (status 0x%x) had not been reaped", (int)w, st) : std::string("a child is still running or stopped");
    for (size_t i = 0; i < g_pids.size(); i++) kill(g_pids[i], SIGKILL);
    while (waitpid(-1, &st, 0) > 0 || errno == EINTR) {}
    return verif::fail("C11:child-left-behind", "after the run: %s", what.c_str());
}

// evidence only (never part of a verdict): which cells of the two small sub-spaces "signal 1..31 or abort() x point" and
// "exit status 0..255 x point" this process has executed and judged; the class is counted once, when a table is full
uint8_t g_seen_sig[NPHASE][32], g_seen_exit[NPHASE][256];
int g_seen_sig_n, g_seen_exit_n;
void note_enumeration(int ntests) {
    for (int t = 0; t < ntests; t++) {
        if (g_env_fork_failed[t]) continue;
        const RealTest& rt = g_real[t];
        for (int ai = 0; ai < rt.nact; ai++) {
            const Act& a = rt.acts[ai];
            if (!g_sh->acted[t][ai]) continue;
            if (a.kind == K_SIGNAL || a.kind == K_ABORT) {
                uint8_t& c = g_seen_sig[a.phase][a.kind == K_ABORT ? 0 : a.arg];
                if (!c) { c = 1; if (++g_seen_sig_n == NPHASE * 32) verif::cls("enum:signals-1..31+abort-x-5-points-complete-in-one-worker(160)"); }
            } else if (a.kind == K_EXIT) {
                uint8_t& c = g_seen_exit[a.phase][a.arg];
                if (!c) { c = 1; if (++g_seen_exit_n == NPHASE * 256) verif::cls("enum:exit-status-0..255-x-5-points-complete-in-one-worker(1280)"); }
            }
        }
    }
}

// ---- part (a) ---------------------------------------------------------------------------------------------------------
int run_real_program(int ntests, bool& nontrivial) {
    reset_program_state();
    g_ntests = ntests;
    for (int t = 0; t < ntests; t++) { g_eintr_left[t][0] = g_real[t].eintr[0]; g_eintr_left[t][1] = g_real[t].eintr[1]; }
    int rc = 0;
    {
        Program p(ntests);
        PlatformSpecificFork = real_fork_seam;
        PlatformSpecificWaitPid = real_waitpid_seam;
        p.run();
        PlatformSpecificFork = g_orig_fork;
        PlatformSpecificWaitPid = g_orig_waitpid;

        rc = [&]() -> int {
            if (!g_flag_sig.empty()) return verif::fail(g_flag_sig.c_str(), "%s", g_flag_msg.c_str());
            if (int r = check_totals(p, ntests)) return r;
            for (int t = 0; t < ntests; t++) {
                const RealTest& rt = g_real[t];
                std::vector<Tok> got = p.toks_of(t);
                if (g_env_fork_failed[t]) {   // the machine refused a process: the documented record is the fork failure
                    verif::observe("fork() really failed in part (a); judged by the fork-failure rule");
                    V_CHECK(got.size() == 1 && got[0].kind == R_FORK, "C11:records-for-fork-failure", "t%d: fork failed, records %s", t, toks_str(got).c_str());
                    continue;
                }
                Expect e = model_child(rt);
                if (e.dies_outside_body || rt.eintr[0] + rt.eintr[1] > 0) nontrivial = true;
                // what the kernel reported to the parent for this child
                int stops_seen = 0, finals_seen = 0, final_status = 0, eintr_seen = 0;
                for (size_t i = 0; i < g_waitlog.size(); i++) {
                    const WaitEntry& w = g_waitlog[i];
                    if (w.test != t) continue;
                    if (w.ret < 0) { if (w.err == EINTR) eintr_seen++; continue; }
                    if (WIFSTOPPED(w.status)) stops_seen++;
                    else if (WIFEXITED(w.status) || WIFSIGNALED(w.status)) { finals_seen++; final_status = w.status; }
                }
                // harness self-check: the child did what the model says (else the case is an artefact, not a verdict)
                V_CHECK(stops_seen >= e.stops && stops_seen <= e.stops + e.maybe, "C11:harness-child-stop-count",
                        "t%d %s: kernel reported %d stops, model expects %d..%d", t, real_str(rt).c_str(), stops_seen, e.stops, e.stops + e.maybe);
                for (int ph = 0; ph < NPHASE; ph++)
                    V_CHECK(g_sh->reached[t][ph] == e.reach[ph], "C11:child-progress", "t%d %s: point '%s' %s in the child, model says %s",
                            t, real_str(rt).c_str(), PH[ph], g_sh->reached[t][ph] ? "reached" : "not reached", e.reach[ph] ? "reached" : "not reached");
                for (int ai = 0; ai < rt.nact; ai++)
                    V_CHECK(g_sh->acted[t][ai] == e.acted[ai], "C11:child-progress", "t%d %s: action #%d %s, model says %s",
                            t, real_str(rt).c_str(), ai, g_sh->acted[t][ai] ? "executed" : "not executed", e.acted[ai] ? "executed" : "not executed");
                if (finals_seen == 1 && e.status_by_code && WIFEXITED(final_status)) {
                    // the child ran to its end: its exit status is the verdict the code under test hands to the parent, so a
                    // wrong zero / non-zero here is a violation of the property, whatever the parent makes of it
                    int k = WEXITSTATUS(final_status);
                    if (e.child_failures > 0 && k == 0)
                        return verif::fail("C11:records-for-failed-child", "t%d %s: the child recorded %d failure(s) (%s) and still exited 0, so the parent cannot record the test as failed; parent records %s",
                                           t, real_str(rt).c_str(), e.child_failures, failure_routes(rt, e).c_str(), toks_str(got).c_str());
                    if (e.child_failures == 0 && k != 0)
                        return verif::fail("C11:records-for-clean-child", "t%d %s: the child completed without any failure and exited %d; parent records %s",
                                           t, real_str(rt).c_str(), k, toks_str(got).c_str());
                } else if (finals_seen == 1 && !e.status_by_code) {
                    // the status was produced by the harness's own action (_exit / raise / abort / guard): a mismatch is an artefact
                    bool match = e.final_signal ? (WIFSIGNALED(final_status) && WTERMSIG(final_status) == e.final_arg)
                                                : (WIFEXITED(final_status) && WEXITSTATUS(final_status) == e.final_arg);
                    V_CHECK(match, "C11:harness-child-status", "t%d %s: kernel status 0x%x, model expects %s %d", t, real_str(rt).c_str(),
                            final_status, e.final_signal ? "signal" : "exit", e.final_arg);
                }
                if (e.guard_ret) verif::observe("a longjmp-style failure in a plugin action makes the child return from runOneTest into the copied parent frame (harness guard _exit(201)); a real runner's child would go on running the remaining tests itself");
                if (e.guard_throw) verif::observe("a throwing failure in a plugin action leaves runOneTest in the child as an exception (harness guard _exit(202)); a real runner's child would std::terminate");
                // the property: records in the parent
                std::vector<Tok> want;
                for (int k = 0; k < stops_seen; k++) { Tok s = {R_STOPPED, 0}; want.push_back(s); }
                if (e.final_signal) { Tok k = {R_KILLED, e.final_arg}; want.push_back(k); }
                else if (e.final_arg != 0) { Tok k = {R_FAILED, 0}; want.push_back(k); }
                if (!same(got, want)) {
                    const char* sig = e.final_signal ? "C11:records-for-signalled-child"
                                    : (e.stops + e.maybe > 0 && (int)std::count_if(got.begin(), got.end(), [](const Tok& x) { return x.kind == R_STOPPED; }) != stops_seen) ? "C11:records-for-stopped-child"
                                    : e.final_arg != 0 ? "C11:records-for-failed-child" : "C11:records-for-clean-child";
                    return verif::fail(sig, "t%d %s (%d EINTR seen, %d stops seen): parent recorded %s, expected %s", t, real_str(rt).c_str(), eintr_seen, stops_seen,
                                       toks_str(got).c_str(), toks_str(want).c_str());
                }
                V_CHECK(finals_seen == 1, "C11:child-not-waited-for", "t%d %s: the parent saw %d terminal statuses for the child", t, real_str(rt).c_str(), finals_seen);
            }
            return 0;
        }();
    }
    int rz = check_no_children_left();
    if (rc == 0 && rz == 0 && verif::g_counting) note_enumeration(ntests);
    return rc ? rc : rz;
}

// ---- part (b) ---------------------------------------------------------------------------------------------------------
int run_stub_program(int ntests, bool& nontrivial) {
    reset_program_state();
    g_ntests = ntests;
    for (int t = 0; t < ntests; t++) g_seg_eintr_left[t] = g_stub[t].fork_fail ? 0 : g_stub[t].segs[0].eintr;
    g_sigcont_seen = 0;
    struct sigaction sa, old; memset(&sa, 0, sizeof sa); sa.sa_handler = on_sigcont; sigemptyset(&sa.sa_mask);
    sigaction(SIGCONT, &sa, &old);
    Program p(ntests);
    PlatformSpecificFork = stub_fork_seam;
    PlatformSpecificWaitPid = stub_waitpid_seam;
    p.run();
    PlatformSpecificFork = g_orig_fork;
    PlatformSpecificWaitPid = g_orig_waitpid;
    g_sigcont_at_start[ntests] = (int)g_sigcont_seen;
    sigaction(SIGCONT, &old, NULL);

    if (!g_flag_sig.empty()) return verif::fail(g_flag_sig.c_str(), "%s", g_flag_msg.c_str());
    if (int r = check_totals(p, ntests)) return r;
    for (int t = 0; t < ntests; t++) {
        const StubTest& st = g_stub[t];
        std::vector<Tok> got = p.toks_of(t), want;
        if (st.fork_fail) {
            Tok f = {R_FORK, 0}; want.push_back(f);
            V_CHECK(same(got, want), "C11:records-for-fork-failure", "t%d %s: parent recorded %s, expected %s", t, stub_str(st).c_str(), toks_str(got).c_str(), toks_str(want).c_str());
            V_CHECK(g_stub_calls[t] == 0, "C11:waitpid-after-failed-fork", "t%d: %d waitpid calls after the failed fork", t, g_stub_calls[t]);
            continue;
        }
        int eintr_total = 0, stops = 0; bool terminal = false;
        for (size_t i = 0; i < g_waitlog.size(); i++) {
            const WaitEntry& w = g_waitlog[i];
            if (w.test != t) continue;
            if (w.ret < 0 && w.err == EINTR) { eintr_total++; continue; }
            if (w.ret < 0) { Tok k = {R_WAIT, 0}; want.push_back(k); terminal = true; continue; }
            if (WIFSTOPPED(w.status)) { Tok k = {R_STOPPED, 0}; want.push_back(k); stops++; }
            else if (WIFSIGNALED(w.status)) { Tok k = {R_KILLED, WTERMSIG(w.status)}; want.push_back(k); terminal = true; }
            else if (WIFEXITED(w.status)) { if (WEXITSTATUS(w.status) != 0) { Tok k = {R_FAILED, 0}; want.push_back(k); } terminal = true; }
        }
        if (eintr_total > 0) nontrivial = true;
        bool gave_up = !got.empty() && got.back().kind == R_GIVEUP;
        if (!terminal) {
            // the wait ended before the child's fate was known: only allowed by giving up after more than the tolerated EINTR results
            V_CHECK(gave_up, "C11:child-abandoned", "t%d %s: the parent stopped waiting after %d calls (%d EINTR) without a terminal status and without reporting it; records %s",
                    t, stub_str(st).c_str(), g_stub_calls[t], eintr_total, toks_str(got).c_str());
            V_CHECK(eintr_total > EINTR_TOLERATED, "C11:interrupted-wait-given-up-early", "t%d %s: gave up after only %d EINTR results (at least %d must be absorbed)",
                    t, stub_str(st).c_str(), eintr_total, EINTR_TOLERATED);
            Tok k = {R_GIVEUP, 0}; want.push_back(k);
        }
        V_CHECK(same(got, want), "C11:records-for-wait-script", "t%d %s: delivered %d EINTR; parent recorded %s, expected %s", t, stub_str(st).c_str(), eintr_total,
                toks_str(got).c_str(), toks_str(want).c_str());
        int conts = g_sigcont_at_start[t + 1] - g_sigcont_at_start[t];
        V_CHECK(conts == stops, "C11:stopped-child-not-continued", "t%d %s: %d stop reports, %d SIGCONT sent to the child", t, stub_str(st).c_str(), stops, conts);
    }
    return 0;
}

// ---- decoder ------------------------------------------------------------------------------------------------------------
const int PHASE_SEL[NPHASE] = {BODY, SETUP, TEARDOWN, PRE, POST};
const int KIND_SEL[8] = {K_NOTHING, K_FAIL, K_EXIT, K_SIGNAL, K_ABORT, K_EXIT, K_SIGNAL, K_SIGNAL};
const int EXIT_LATTICE[8] = {0, 1, 2, 126, 127, 128, 254, 255};
const int FORK_ERRNO[3] = {EAGAIN, ENOMEM, ENOSYS};
const int WAIT_ERRNO[5] = {ECHILD, EINVAL, EFAULT, ESRCH, EAGAIN};
const int STOP_SIGS[4] = {SIGSTOP, SIGTSTP, SIGTTIN, SIGTTOU};
const int TERM_SIGS[4] = {SIGABRT, SIGKILL, SIGSEGV, SIGTERM};

void decode_real(Reader& r, int ntests, std::string& desc) {
    for (int t = 0; t < ntests; t++) {
        RealTest& rt = g_real[t]; memset(&rt, 0, sizeof rt);
        rt.nact = 1 + (int)r.below(2);
        for (int ai = 0; ai < rt.nact; ai++) {
            Act& a = rt.acts[ai];
            a.phase = PHASE_SEL[r.below(NPHASE)];
            uint32_t ks = r.below(8);
            a.kind = KIND_SEL[ks];
            if (a.kind == K_FAIL) a.var = (int)r.below(4);
            else if (a.kind == K_EXIT) a.arg = ks == 5 ? r.pick(EXIT_LATTICE) : (int)r.u8();
            else if (a.kind == K_SIGNAL) a.arg = ks == 7 ? r.pick(STOP_SIGS) : 1 + (int)r.below(31);
        }
        switch (r.below(4)) {
        default: break;
        case 1: rt.eintr[0] = 1 + (int)r.below(EINTR_TOLERATED); break;
        case 2: { int total = 1 + (int)r.below(EINTR_TOLERATED); rt.eintr[0] = (int)r.below((uint32_t)total + 1); rt.eintr[1] = total - rt.eintr[0]; break; }
        case 3: rt.eintr[1] = 1 + (int)r.below(EINTR_TOLERATED); break;
        }
        desc += sfmt(" t%d%s", t, real_str(rt).c_str());
    }
}

void classes_real(int ntests) {
    for (int t = 0; t < ntests; t++) {
        const RealTest& rt = g_real[t];
        for (int ai = 0; ai < rt.nact; ai++) {
            const Act& a = rt.acts[ai];
            static const char* const KN[5] = {"nothing", "fail", "exit", "signal", "abort"};
            verif::cls(sfmt("a:%s@%s", KN[a.kind], PH[a.phase]).c_str());
            if (a.kind == K_SIGNAL) verif::cls(sfmt("a:signal-%02d", a.arg).c_str());
            if (a.kind == K_EXIT) verif::cls(a.arg == 0 ? "a:exit-0" : a.arg == 1 ? "a:exit-1" : a.arg < 128 ? "a:exit-2..127" : a.arg < 255 ? "a:exit-128..254" : "a:exit-255");
            if (a.kind == K_FAIL) {
                bool plugin = a.phase == PRE || a.phase == POST;
                verif::cls(sfmt("a:fail-%s-%s", plugin ? "plugin" : "test", (plugin && a.var >= F_UNEXPECTED) ? FV[F_ADDONLY] : FV[a.var]).c_str());
            }
        }
        if (rt.nact == 2) verif::cls("a:two-actions");
        if (rt.eintr[0]) verif::cls("a:eintr-before-first-status");
        if (rt.eintr[1]) verif::cls("a:eintr-before-second-status");
    }
}

void decode_stub(Reader& r, int ntests, std::string& desc) {
    for (int t = 0; t < ntests; t++) {
        StubTest& st = g_stub[t]; st.fork_fail = false; st.fork_errno = 0; st.segs.clear();
        if (r.below(8) == 7) { st.fork_fail = true; st.fork_errno = r.pick(FORK_ERRNO); verif::cls("b:fork-error"); desc += sfmt(" t%d%s", t, stub_str(st).c_str()); continue; }
        int nseg = 1 + (int)r.below(4);
        bool terminal = false;
        for (int j = 0; j < nseg && !terminal; j++) {
            Seg g; g.core = false; g.arg = 0;
            switch (r.below(8)) {
            default: g.eintr = 0; verif::cls("b:eintr-0"); break;
            case 1: g.eintr = 1 + (int)r.below(5); verif::cls("b:eintr-1..5"); break;
            case 2: g.eintr = 6 + (int)r.below(24); verif::cls("b:eintr-6..29"); break;
            case 3: g.eintr = 30; verif::cls("b:eintr-30"); break;
            case 4: g.eintr = 31 + (int)r.below(2); verif::cls("b:eintr-31..32"); break;
            case 5: g.eintr = 33 + (int)r.below(8); verif::cls("b:eintr-33..40"); break;
            case 6: g.eintr = -1; verif::cls("b:eintr-endless"); break;
            case 7: g.eintr = 1; verif::cls("b:eintr-1..5"); break;
            }
            switch (r.below(8)) {
            default: g.ev = E_EXIT; g.arg = 0; verif::cls("b:exited-0"); break;
            case 1: g.ev = E_EXIT; g.arg = 1 + (int)r.below(255); verif::cls("b:exited-nonzero"); break;
            case 2: g.ev = E_SIGNALED; g.arg = 1 + (int)r.below(31); g.core = r.flag(); verif::cls(sfmt("b:signalled-%02d", g.arg).c_str()); break;
            case 3: g.ev = E_STOPPED; g.arg = r.flag() ? 1 + (int)r.below(31) : r.pick(STOP_SIGS); verif::cls("b:stopped"); break;
            case 4: g.ev = E_CONTINUED; verif::cls("b:continued"); break;
            case 5: g.ev = E_ERROR; g.arg = r.pick(WAIT_ERRNO); verif::cls("b:wait-error"); break;
            case 6: g.ev = E_EXIT; g.arg = 1; verif::cls("b:exited-nonzero"); break;
            case 7: g.ev = E_SIGNALED; g.arg = r.pick(TERM_SIGS); verif::cls(sfmt("b:signalled-%02d", g.arg).c_str()); break;
            }
            terminal = g.ev == E_EXIT || g.ev == E_SIGNALED || g.ev == E_ERROR;
            st.segs.push_back(g);
        }
        if (!terminal) { Seg g = {0, E_EXIT, 0, false}; st.segs.push_back(g); }
        if (st.segs.size() > 1) verif::cls("b:multi-status-script");
        desc += sfmt(" t%d%s", t, stub_str(st).c_str());
    }
}

// one completely enumerated sub-space, in programs of 8 tests
int run_enum_block(int block, bool& nontrivial, std::string& desc) {
    int phase = block % NPHASE; bool exits = block >= NPHASE;
    int items = exits ? 256 : 32;
    desc = sfmt("enumeration: every %s at point '%s' (%d children)", exits ? "exit status 0..255" : "signal 1..31 and abort()", PH[phase], items);
    for (int base = 0; base < items; base += MAXT) {
        for (int t = 0; t < MAXT; t++) {
            RealTest& rt = g_real[t]; memset(&rt, 0, sizeof rt);
            rt.nact = 1; rt.acts[0].phase = phase;
            int item = base + t;
            if (exits) { rt.acts[0].kind = K_EXIT; rt.acts[0].arg = item; }
            else if (item == 0) rt.acts[0].kind = K_ABORT;
            else { rt.acts[0].kind = K_SIGNAL; rt.acts[0].arg = item; }
        }
        if (verif::g_explain) { for (int t = 0; t < MAXT; t++) fprintf(stderr, "  t%d%s", t, real_str(g_real[t]).c_str()); fprintf(stderr, "\n"); }
        if (int rc = run_real_program(MAXT, nontrivial)) return rc;
    }
    verif::cls(sfmt("enum:%s@%s-complete(%d)", exits ? "exit-status" : "signal", PH[phase], items).c_str());
    return 0;
}

}  // namespace

extern "C" const char* verif_property(void) { return "C11"; }

extern "C" void verif_init(void) {
    struct rlimit rl; rl.rlim_cur = 0; rl.rlim_max = 0;
    setrlimit(RLIMIT_CORE, &rl);                         // children die by SIGSEGV/SIGABRT/...: no core files
    verif::install_fake_time();
    g_sh = (Shared*)mmap(NULL, sizeof(Shared), PROT_READ | PROT_WRITE, MAP_SHARED | MAP_ANONYMOUS, -1, 0);
    if (g_sh == MAP_FAILED) { perror("mmap"); exit(2); }
    g_orig_fork = PlatformSpecificFork;
    g_orig_waitpid = PlatformSpecificWaitPid;
}

extern "C" int verif_case(const uint8_t* data, size_t size) {
    Reader r(data, size);
    bool nontrivial = false; std::string desc; int rc;
    uint8_t m = r.u8(), n = r.u8();
    if (m == 0xEE && n < 2 * NPHASE) {      // rare in the random search (1 in 6500 cases); the ten blocks are corpus seeds
        rc = run_enum_block((int)n, nontrivial, desc);
        if (verif::g_explain) fprintf(stderr, "%s\n", desc.c_str());
    } else {
        int ntests = 1 + (int)(n % MAXT);
        if ((m & 1) == 0) {
            desc = "real:";
            decode_real(r, ntests, desc);
            classes_real(ntests);
            verif::cls("a:programs");
            if (verif::g_explain) fprintf(stderr, "%s\n", desc.c_str());
            rc = run_real_program(ntests, nontrivial);
        } else {
            desc = "stub:";
            decode_stub(r, ntests, desc);
            verif::cls("b:programs");
            if (verif::g_explain) fprintf(stderr, "%s\n", desc.c_str());
            rc = run_stub_program(ntests, nontrivial);
        }
    }
    if (g_in_child) _exit(GUARD_LATE);
    verif::note_case(nontrivial, r.h, [&] { return desc; });
    return rc;
}

extern "C" int verif_known_repro(const char*) { return -1; }
