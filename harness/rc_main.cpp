// Engine wrapper 1: rapidcheck over byte strings + plain replay + known-finding reproducers.
//   <bin> --rc --stats F --fail F --cur F [--watchdog S]     (RC_PARAMS from the environment)
//   <bin> --replay FILE [--explain]                          exit 0 held / 1 violated
//   <bin> --batch FILE --stats F --fail F --cur F            records: u32 length + bytes (for builds without rapidcheck use)
//   <bin> --known KEY                                        exit 1 when the listed finding reproduces
#include "verif_rt.h"
#include <time.h>
#include <rapidcheck.h>
#include <signal.h>
#include <unistd.h>
#include <fcntl.h>
#include <sys/mman.h>
#include <sys/time.h>

static uint8_t* g_cur = nullptr;            // shared mapping: [u32 len][bytes] of the case being executed
static const size_t CUR_MAX = 1 << 20;
static int g_watchdog = 60;

static void cur_open(const char* path) {
    int fd = open(path, O_RDWR | O_CREAT | O_TRUNC, 0644);
    if (fd < 0) return;
    if (ftruncate(fd, CUR_MAX + 4) != 0) { close(fd); return; }
    void* m = mmap(nullptr, CUR_MAX + 4, PROT_READ | PROT_WRITE, MAP_SHARED, fd, 0);
    close(fd);
    if (m != MAP_FAILED) g_cur = (uint8_t*)m;
}
static inline void cur_write(const uint8_t* d, size_t n) {
    if (!g_cur) return;
    if (n > CUR_MAX) n = CUR_MAX;
    uint32_t len = (uint32_t)n;
    if (n) memcpy(g_cur + 4, d, n);
    memcpy(g_cur, &len, 4);
}
static void on_alarm(int) {
    static const char m[] = "VERIF-HANG: case exceeded the watchdog\n";
    (void)!write(2, m, sizeof m - 1);
    _exit(97);
}
// Watchdog: CPU time of this process (immune to machine load), plus a 20x wall-clock fallback for hangs that block
// without consuming CPU (deadlocks).  A hang is only ever a candidate: the driver replays it three times.
static void arm_watchdog() {
    if (g_watchdog <= 0) return;
    struct itimerval it; memset(&it, 0, sizeof it);
    it.it_value.tv_sec = g_watchdog;
    setitimer(ITIMER_PROF, &it, nullptr);
    alarm((unsigned)g_watchdog * 20);
}
static void disarm_watchdog() {
    struct itimerval it; memset(&it, 0, sizeof it);
    setitimer(ITIMER_PROF, &it, nullptr);
    alarm(0);
}
static void write_file(const char* path, const uint8_t* d, size_t n) {
    FILE* f = fopen(path, "wb");
    if (!f) return;
    if (n) fwrite(d, 1, n, f);
    fclose(f);
}
static std::vector<uint8_t> read_file(const char* path) {
    std::vector<uint8_t> v;
    FILE* f = fopen(path, "rb");
    if (!f) { fprintf(stderr, "cannot read %s\n", path); exit(2); }
    uint8_t buf[65536]; size_t k;
    while ((k = fread(buf, 1, sizeof buf, f)) > 0) v.insert(v.end(), buf, buf + k);
    fclose(f);
    return v;
}

static volatile sig_atomic_t g_stop_requested = 0;
static void on_term(int) { g_stop_requested = 1; }

int main(int argc, char** argv) {
    const char *stats = "", *failp = "", *cur = nullptr, *replay = nullptr, *known = nullptr, *batch = nullptr;
    bool rc_mode = false;
    for (int i = 1; i < argc; i++) {
        std::string a = argv[i];
        if (a == "--rc") rc_mode = true;
        else if (a == "--stats" && i + 1 < argc) stats = argv[++i];
        else if (a == "--fail" && i + 1 < argc) failp = argv[++i];
        else if (a == "--cur" && i + 1 < argc) cur = argv[++i];
        else if (a == "--replay" && i + 1 < argc) replay = argv[++i];
        else if (a == "--batch" && i + 1 < argc) batch = argv[++i];
        else if (a == "--known" && i + 1 < argc) known = argv[++i];
        else if (a == "--explain") verif::g_explain = true;
        else if (a == "--watchdog" && i + 1 < argc) g_watchdog = atoi(argv[++i]);
        else { fprintf(stderr, "unknown argument %s\n", argv[i]); return 2; }
    }
    verif::load_known();
    verif_init();
    if (known) {
        int r = verif_known_repro(known);
        if (r < 0) { fprintf(stderr, "unknown finding key %s\n", known); return 2; }
        return r;
    }
    signal(SIGALRM, on_alarm);
    signal(SIGPROF, on_alarm);
    if (replay) {
        std::vector<uint8_t> v = read_file(replay);
        arm_watchdog();
        int r = verif_case(v.data(), v.size());
        disarm_watchdog();
        if (r) { fprintf(stderr, "VERIF-FAIL sig=%s msg=%s\n", verif::g_fail_sig.c_str(), verif::g_fail_msg.c_str()); return 1; }
        fprintf(stderr, "held\n");
        return 0;
    }
    if (cur) cur_open(cur);
    if (batch) {
        std::vector<uint8_t> all = read_file(batch);
        size_t off = 0; uint64_t idx = 0;
        while (off + 4 <= all.size()) {
            uint32_t len; memcpy(&len, &all[off], 4); off += 4;
            if (off + len > all.size()) break;
            cur_write(&all[off], len);
            if ((idx & 63) == 0) arm_watchdog();
            if (verif_case(&all[off], len)) {
                write_file(failp, &all[off], len);
                fprintf(stderr, "VERIF-FAIL sig=%s msg=%s\n", verif::g_fail_sig.c_str(), verif::g_fail_msg.c_str());
                verif::flush_stats(stats);
                return 1;
            }
            off += len; idx++;
        }
        disarm_watchdog();
        verif::flush_stats(stats);
        return 0;
    }
    if (rc_mode) {
        std::vector<uint8_t> last_fail; bool failed = false; std::string sig, msg; uint64_t n = 0;
        // shrinking is bounded by CPU time: on a tree where almost every case fails (a multi-threaded case costs 0.1 s) the
        // greedy shrink of a few thousand bytes took longer than the whole search; once the budget is used up every further
        // candidate is accepted unseen, which ends the shrink with the smallest failing input found so far
        auto cpu_now = [] { struct timespec ts; clock_gettime(CLOCK_PROCESS_CPUTIME_ID, &ts); return (double)ts.tv_sec + (double)ts.tv_nsec * 1e-9; };
        double fail_t0 = 0, shrink_budget = getenv("VERIF_SHRINK_BUDGET_S") ? atof(getenv("VERIF_SHRINK_BUDGET_S")) : 40.0;
        signal(SIGTERM, on_term);   // the driver's wall-clock budget: finish at once, but keep the statistics of what was run
        bool ok = rc::check(verif_property(), [&](const std::vector<uint8_t>& v) {
            if (g_stop_requested) {   // what was run counts; a failure found before the stop is still a failure (its replay file is current)
                disarm_watchdog(); verif::flush_stats(stats);
                if (failed) { fprintf(stderr, "VERIF-FAIL sig=%s msg=%s\n", sig.c_str(), msg.c_str()); _exit(1); }
                _exit(0);
            }
            if (failed && cpu_now() - fail_t0 > shrink_budget) return;
            cur_write(v.data(), v.size());
            if ((n++ & 63) == 0) arm_watchdog();
            int r = verif_case(v.data(), v.size());
            if (r) {
                if (!failed) fail_t0 = cpu_now();
                failed = true; verif::g_counting = false;
                last_fail = v; sig = verif::g_fail_sig; msg = verif::g_fail_msg;
                write_file(failp, last_fail.data(), last_fail.size());   // kept current: a worker that is killed while shrinking still leaves a replay file
            }
            RC_ASSERT(r == 0);
        });
        disarm_watchdog();
        verif::flush_stats(stats);
        if (!ok || failed) {
            write_file(failp, last_fail.data(), last_fail.size());
            fprintf(stderr, "VERIF-FAIL sig=%s msg=%s\n", sig.c_str(), msg.c_str());
            return 1;
        }
        return 0;
    }
    fprintf(stderr, "nothing to do\n");
    return 2;
}
