// C04 — leak accounting is exact for every allocation history.
// Decoder: 1..120 operations on a LOCAL MemoryLeakDetector (alloc / free / realloc / period / stage / clear / mark /
//          report / query), blocks handed out by an arena allocator whose slot addresses have decoder-chosen residues
//          mod 73, so long hash chains, mid-chain removals and cross-bucket iteration are the common case.
// Oracle:  std::map<address, record> with the documented period rule; after EVERY step the four period totals agree;
//          report steps are parsed back (entries, total, "no leaks", malloc note) and compared with the model.
#include "common.h"
#include <map>
#include <set>
#include <algorithm>

using verif::Reader;
using verif::sfmt;

namespace {

// ---------------------------------------------------------------- arena with residue-selected slots
const size_t SLOT = 4608, NRES = 73, DEPTH = 24, NSLOTS = NRES * DEPTH;   // gcd(4608, 73) = 1: every residue class has DEPTH slots
char* g_arena_raw; char* g_arena;
std::vector<int> g_by_res[NRES];
bool g_used[NSLOTS]; size_t g_slot_size[NSLOTS];
unsigned g_next_residue; bool g_realloc_inplace; bool g_realloc_fail;
int g_node_live; bool g_node_fail; bool g_alloc_fail;

int slot_of(void* p) { return (int)(((char*)p - g_arena) / SLOT); }
void* arena_alloc(size_t size) {
    if (size > SLOT) return NULLPTR;
    if (g_alloc_fail) return NULLPTR;
    for (unsigned d = 0; d < NRES; d++) {
        unsigned res = (g_next_residue + d) % NRES;
        for (int k : g_by_res[res]) if (!g_used[k]) { g_used[k] = true; g_slot_size[k] = size; memset(g_arena + k * SLOT, 0xAA, size < 400 ? 512 : SLOT); return g_arena + k * SLOT; }
    }
    return NULLPTR;
}
void arena_free(void* p) { if (p) g_used[slot_of(p)] = false; }
void* arena_realloc(void* p, size_t size) {
    if (p == NULLPTR) return arena_alloc(size);
    if (g_realloc_fail) return NULLPTR;
    if (g_realloc_inplace && size <= SLOT) { g_slot_size[slot_of(p)] = size; return p; }
    size_t old = g_slot_size[slot_of(p)];
    void* q = arena_alloc(size);
    if (!q) return NULLPTR;
    memcpy(q, p, std::min(old, size));
    arena_free(p);
    return q;
}
struct ArenaAlloc : TestMemoryAllocator {
    ArenaAlloc(const char* n, const char* a, const char* f) : TestMemoryAllocator(n, a, f) {}
    char* alloc_memory(size_t size, const char*, size_t) CPPUTEST_OVERRIDE { return (char*)arena_alloc(size); }
    void free_memory(char* m, size_t, const char*, size_t) CPPUTEST_OVERRIDE { arena_free(m); }
    char* allocMemoryLeakNode(size_t size) CPPUTEST_OVERRIDE { if (g_node_fail) return NULLPTR; g_node_live++; return (char*)malloc(size); }
    void freeMemoryLeakNode(char* m) CPPUTEST_OVERRIDE { g_node_live--; free(m); }
};
ArenaAlloc* g_allocs[3];
const char* KIND_NAME[3] = {"new", "new []", "malloc"};

struct Reporter : MemoryLeakFailure {
    int calls = 0; std::string last;
    void fail(char* s) CPPUTEST_OVERRIDE { calls++; last = s ? s : "(null)"; }
};

// ---------------------------------------------------------------- model
enum Period { P_ALL = 0, P_DISABLED = 1, P_ENABLED = 2, P_CHECKING = 3 };
const MemLeakPeriod REAL_PERIOD[4] = {mem_leak_period_all, mem_leak_period_disabled, mem_leak_period_enabled, mem_leak_period_checking};
const char* PNAME[4] = {"all", "disabled", "enabled", "checking"};
struct Rec { size_t size; unsigned number; int file; int line; int kind; Period period; unsigned char stage; bool separate; };
// documented rule: all = everything; enabled = everything not stamped disabled; checking / disabled = exactly that stamp
bool in_period(const Rec& r, Period p) { return p == P_ALL || r.period == p || (p == P_ENABLED && r.period != P_DISABLED); }
const char* FILES[4] = {"alpha.cpp", "dir/beta.c", "gamma_test.cpp", "d.h"};

struct Entry { unsigned number; size_t size; std::string file; int line; std::string type; uintptr_t addr;
    bool operator<(const Entry& o) const { return std::tie(addr, number, size, file, line, type) < std::tie(o.addr, o.number, o.size, o.file, o.line, o.type); }
    bool operator==(const Entry& o) const { return !(*this < o) && !(o < *this); } };

// parse complete "Alloc num (...)" header lines out of a report
std::vector<Entry> parse_entries(const std::string& t) {
    std::vector<Entry> out; size_t pos = 0;
    while ((pos = t.find("Alloc num (", pos)) != std::string::npos) {
        Entry e; char file[256], type[64]; unsigned long sz; void* addr; int line; int consumed = 0;
        int n = sscanf(t.c_str() + pos, "Alloc num (%u) Leak size: %lu Allocated at: %255s and line: %d. Type: \"%63[^\"]\"\n\tMemory: <%p> Content:%n", &e.number, &sz, file, &line, type, &addr, &consumed);
        if (n == 6 && consumed > 0 && t.size() > pos + (size_t)consumed && t[pos + consumed] == '\n') { e.size = sz; e.file = file; e.line = line; e.type = type; e.addr = (uintptr_t)addr; out.push_back(e); }
        pos += 5;
    }
    return out;
}

int run_case(Reader& r, bool& nontrivial, std::string& desc) {
    Reporter rep;
    MemoryLeakDetector* det = new MemoryLeakDetector(&rep);
    struct Del { MemoryLeakDetector* d; ~Del() { delete d; } } del{det};
    std::map<char*, Rec> model;
    std::vector<char*> live;                  // insertion order, for index choice
    std::vector<char*> released;              // addresses released earlier (for stale frees)
    Period cur = P_DISABLED; unsigned char stage = 0; unsigned seq = 1;
    std::map<unsigned, std::vector<char*>> chain;   // model of each bucket's chain, head first (for the NT rule only)
    bool transition_since_alloc = false;

    auto bucket = [](char* p) { return (unsigned)((size_t)p % 73); };
    auto chain_add = [&](char* p) { auto& c = chain[bucket(p)]; c.insert(c.begin(), p); };
    auto chain_del = [&](char* p) { auto& c = chain[bucket(p)]; auto it = std::find(c.begin(), c.end(), p); if (it != c.end()) { if (it != c.begin() && c.size() >= 2) nontrivial = true; c.erase(it); } };
    auto forget = [&](char* p) { live.erase(std::find(live.begin(), live.end(), p)); chain_del(p); model.erase(p); };
    auto totals_ok = [&](const char* after) -> int {
        for (int p = 0; p < 4; p++) {
            size_t want = 0; for (auto& kv : model) if (in_period(kv.second, (Period)p)) want++;
            size_t got = det->totalMemoryLeaks(REAL_PERIOD[p]);
            if (got != want) return verif::fail("C04:total", "after %s: totalMemoryLeaks(%s) = %zu, model says %zu [%s]", after, PNAME[p], got, want, desc.c_str());
        }
        if (det->getCurrentAllocationNumber() != seq) return verif::fail("C04:sequence", "after %s: allocation number %u, model %u", after, det->getCurrentAllocationNumber(), seq);
        if (det->getCurrentAllocationStage() != stage) return verif::fail("C04:stage", "after %s: stage %u, model %u", after, det->getCurrentAllocationStage(), stage);
        return 0;
    };

    int nops = 1 + (int)r.below(120);
    for (int op = 0; op < nops && (op == 0 || !r.empty()); op++) {   // an exhausted input ends the history
        uint32_t k = r.below(100);
        std::string what;
        int calls_before = rep.calls;
        int expect_calls = 0;
        if (k < 34 || live.empty()) {                                  // ---- alloc
            int kind = (int)r.below(3); size_t size = r.below(4) == 0 ? (r.below(8) == 0 ? r.below(4001) : r.below(301)) : r.below(24);
            int file = (int)r.below(4), line = (int)r.below(1000); bool separate = r.flag();
            g_next_residue = r.below(3) ? r.below(4) : r.below(73);   // mostly a few buckets: long chains
            g_node_fail = separate && r.below(24) == 1;                // fault: the separate bookkeeping record cannot be allocated
            uint32_t how = r.below(12);                                // 0: through realloc(NULL, n) (an allocation too), 1: the underlying allocator fails, 2: a size that overflows once bookkeeping is added
            bool via_realloc = how == 0; g_alloc_fail = how == 1 && !g_node_fail;
            bool too_big = how == 2 && !g_node_fail; if (too_big) { size = (size_t)-1 - r.below(96); via_realloc = r.flag(); }
            char* p = via_realloc ? det->reallocMemory(g_allocs[kind], NULLPTR, size, FILES[file], (size_t)line, separate)
                                  : det->allocMemory(g_allocs[kind], size, FILES[file], (size_t)line, separate);
            what = sfmt("%s(%s,%zu,%s:%d,%s,res%u%s)", via_realloc ? "realloc-null" : "alloc", KIND_NAME[kind], size, FILES[file], line, separate ? "sep" : "inl", g_next_residue, g_node_fail ? ",record-fault" : g_alloc_fail ? ",allocator-fault" : "");
            if (via_realloc) verif::cls("alloc-through-realloc-null");
            if (g_node_fail || g_alloc_fail || too_big) {   // a request that cannot be satisfied: NULL, nothing tracked, nothing kept
                verif::cls(g_node_fail ? "alloc-record-fault" : g_alloc_fail ? "alloc-allocator-fault" : "alloc-size-overflow");
                g_node_fail = false; g_alloc_fail = false; nontrivial = true;
                V_CHECK(p == NULLPTR, "C04:fault-alloc-not-null", "%s returned a block although the request could not be satisfied", what.c_str());
                desc += what + ";";
                if (int rc = totals_ok(what.c_str())) return rc;
                continue;
            }
            V_CHECK(p != NULLPTR, "C04:alloc-null", "%s returned NULL", what.c_str());
            V_CHECK(model.find(p) == model.end(), "C04:alias", "%s returned an address that is still outstanding", what.c_str());
            model[p] = Rec{size, seq++, file, line, kind, cur, stage, separate}; live.push_back(p); chain_add(p);
            memset(p, 0xAA, size);
            transition_since_alloc = false; verif::cls("alloc");
        } else if (k < 56) {                                           // ---- free
            char* p = live[r.below((uint32_t)live.size())]; Rec rec = model[p];
            if (transition_since_alloc || rec.period != cur || rec.stage != stage) nontrivial = true;
            what = sfmt("free(#%u)", rec.number);
            if (r.below(16) == 1) { det->deallocMemory(g_allocs[r.below(3)], NULLPTR, "null.c", 1, r.flag()); verif::cls("free-null"); }   // releasing NULL: nothing happens
            det->deallocMemory(g_allocs[rec.kind], p, FILES[r.below(4)], r.below(1000), rec.separate);
            forget(p); released.push_back(p); verif::cls("free");
        } else if (k < 64) {                                           // ---- realloc (malloc family as the real entry point; any live block here)
            char* p = live[r.below((uint32_t)live.size())]; Rec rec = model[p];
            size_t nsize = r.below(4) == 0 ? (r.below(8) == 0 ? r.below(4001) : r.below(301)) : r.below(24); int file = (int)r.below(4), line = (int)r.below(1000);
            g_realloc_inplace = r.flag(); g_next_residue = r.below(3) ? r.below(4) : r.below(73);
            int fault = r.below(10) == 1 ? 1 + (int)r.below(3) : 0;    // 1: the platform realloc fails, 2: the new separate record cannot be allocated, 3: a size that overflows once bookkeeping is added
            if (fault == 2 && !rec.separate) fault = 1;
            if (fault == 3) nsize = (size_t)-1 - r.below(96);
            g_realloc_fail = fault == 1; g_node_fail = fault == 2;
            what = sfmt("realloc(#%u,%zu,%s%s)", rec.number, nsize, g_realloc_inplace ? "inplace" : "move", fault == 1 ? ",realloc-fault" : fault == 2 ? ",record-fault" : fault == 3 ? ",size-overflow" : "");
            char* q = det->reallocMemory(g_allocs[rec.kind], p, nsize, FILES[file], (size_t)line, rec.separate);
            g_realloc_fail = false; g_node_fail = false;
            if (fault) {   // a failed reallocation: NULL, and the old block is still valid and still tracked exactly as before
                nontrivial = true; verif::cls(fault == 1 ? "realloc-fault" : fault == 2 ? "realloc-record-fault" : "realloc-size-overflow");
                V_CHECK(q == NULLPTR, "C04:fault-realloc-not-null", "%s returned a block", what.c_str());
                desc += what + ";";
                V_CHECK(rep.calls == calls_before, "C04:reporter", "%s: misuse callback: %.200s", what.c_str(), rep.last.c_str());
                if (int rc = totals_ok(what.c_str())) return rc;
                continue;
            }
            V_CHECK(q != NULLPTR, "C04:realloc-null", "%s returned NULL", what.c_str());
            forget(p);
            V_CHECK(model.find(q) == model.end(), "C04:alias", "%s returned an address that is still outstanding", what.c_str());
            if (q != p) released.push_back(p);
            model[q] = Rec{nsize, seq++, file, line, rec.kind, cur, stage, rec.separate}; live.push_back(q); chain_add(q);
            nontrivial = nontrivial || rec.period != cur; verif::cls("realloc");
        } else if (k < 74) {                                           // ---- period transitions
            switch (r.below(4)) {
            case 0: det->enable(); cur = P_ENABLED; what = "enable"; break;
            case 1: det->disable(); cur = P_DISABLED; what = "disable"; break;
            case 2: det->startChecking(); cur = P_CHECKING; what = "startChecking"; break;
            default: det->stopChecking(); cur = P_ENABLED; what = "stopChecking"; break;
            }
            transition_since_alloc = true; verif::cls("period");
        } else if (k < 79) {                                           // ---- stage
            if (stage < 40 && (stage == 0 || r.flag())) {
                unsigned up = r.below(4) == 0 ? 1 + r.below(20) : 1;              // now and then many levels at once (stages nest up to 255 deep)
                if (stage + up > 40) up = 1;
                for (unsigned q = 0; q < up; q++) det->increaseAllocationStage();
                stage = (unsigned char)(stage + up); what = sfmt("stage+=%u", up); if (stage >= 16) verif::cls("stage>=16");
            }
            else { det->decreaseAllocationStage(); stage--; what = "stage--"; }
            transition_since_alloc = true; verif::cls("stage");
        } else if (k < 82) {                                           // ---- release everything of the current stage
            what = sfmt("deallocAllInStage(%u)", stage);
            std::vector<char*> gone; for (auto& kv : model) if (kv.second.stage == stage) gone.push_back(kv.first);
            det->deallocAllMemoryInCurrentAllocationStage();
            for (char* p : gone) { forget(p); released.push_back(p); }
            if (!gone.empty() && !model.empty()) nontrivial = true; verif::cls("deallocStage");
        } else if (k < 85) {                                           // ---- clearAllAccounting(period)
            Period p = (Period)r.below(4); what = sfmt("clearAllAccounting(%s)", PNAME[p]);
            std::vector<char*> gone; for (auto& kv : model) if (in_period(kv.second, p)) gone.push_back(kv.first);
            det->clearAllAccounting(REAL_PERIOD[p]);
            for (char* q : gone) { forget(q); arena_free(q); }          // the detector forgets them without releasing: the harness reclaims the slots
            if (!gone.empty() && !model.empty()) nontrivial = true; verif::cls("clear");
        } else if (k < 88) {                                           // ---- mark checking-period leaks as non-checking
            what = "markCheckingAsNonChecking";
            det->markCheckingPeriodLeaksAsNonCheckingPeriod();
            for (auto& kv : model) if (kv.second.period == P_CHECKING) kv.second.period = P_ENABLED;
            verif::cls("mark");
        } else if (k < 89 && !live.empty()) {                          // ---- forget one block without checking or releasing it (what MemoryLeakAllocator does)
            char* p = live[r.below((uint32_t)live.size())]; Rec rec = model[p];
            what = sfmt("forget(#%u)", rec.number);
            det->removeMemoryLeakInformationWithoutCheckingOrDeallocatingTheMemoryButDeallocatingTheAccountInformation(g_allocs[rec.kind], p, rec.separate);
            forget(p); arena_free(p); verif::cls("forget");
        } else if (k < 91 && !released.empty()) {                      // ---- release of an address that is not outstanding
            char* p = released[r.below((uint32_t)released.size())];
            if (model.find(p) != model.end()) { what = "stale-free(skipped: address reused)"; }
            else if (r.below(3) == 0) {                                // ... through realloc: one report, NULL, nothing changes
                what = sfmt("stale-free(%p) via realloc", (void*)p);
                char* q = det->reallocMemory(g_allocs[r.below(3)], p, r.below(64), "stale.c", 8, r.flag()); expect_calls = 1; verif::cls("stale-realloc");
                V_CHECK(q == NULLPTR, "C04:stale-realloc-not-null", "%s returned a block", what.c_str());
            }
            else { what = sfmt("stale-free(%p)", (void*)p); det->deallocMemory(g_allocs[r.below(3)], p, "stale.c", 7, r.flag()); expect_calls = 1; verif::cls("stale-free"); }
        } else {                                                       // ---- report(period)
            Period p = (Period)r.below(4); what = sfmt("report(%s)", PNAME[p]);
            det->startChecking();                                        // the only public way to empty the text buffer
            if (cur == P_ENABLED) det->enable(); else if (cur == P_DISABLED) det->disable();
            const char* txt = det->report(REAL_PERIOD[p]);
            V_CHECK(txt != NULLPTR, "C04:report-null", "report returned NULL");
            std::string t(txt);
            std::set<Entry> want; bool any_malloc = false;
            for (auto& kv : model) if (in_period(kv.second, p)) { want.insert(Entry{kv.second.number, kv.second.size, FILES[kv.second.file], kv.second.line, KIND_NAME[kv.second.kind], (uintptr_t)kv.first}); if (kv.second.kind == 2) any_malloc = true; }
            if (want.empty()) {
                V_CHECK(t == "No memory leaks were detected.", "C04:report-noleaks", "no block outstanding for %s but the report says: %.300s", PNAME[p], t.c_str());
            } else {
                V_CHECK(t.find("No memory leaks") == std::string::npos && t.compare(0, 22, "Memory leak(s) found.\n") == 0, "C04:report-header", "%zu blocks outstanding for %s but the report starts: %.200s", want.size(), PNAME[p], t.c_str());
                size_t tp = t.find("Total number of leaks:");
                V_CHECK(tp != std::string::npos, "C04:report-total", "report without total: %.300s", t.c_str());
                long total = strtol(t.c_str() + tp + 22, nullptr, 10);
                V_CHECK((size_t)total == want.size(), "C04:report-total", "report(%s) states %ld leaks, model holds %zu [%s]", PNAME[p], total, want.size(), desc.c_str());
                std::vector<Entry> got = parse_entries(t); std::set<Entry> gs(got.begin(), got.end());
                V_CHECK(gs.size() == got.size(), "C04:report-duplicate", "report lists an entry twice");
                bool too_many = t.find("Too many memory leaks to report") != std::string::npos;
                for (auto& e : got) V_CHECK(want.count(e) == 1, "C04:report-entry", "report(%s) lists alloc num %u size %zu at %s:%d type %s <%p>, which the model does not hold for that period [%s]", PNAME[p], e.number, e.size, e.file.c_str(), e.line, e.type.c_str(), (void*)e.addr, desc.c_str());
                if (!too_many) V_CHECK(gs.size() == want.size(), "C04:report-missing", "report(%s) lists %zu entries without a too-many notice, model holds %zu [%s]", PNAME[p], gs.size(), want.size(), desc.c_str());
                bool note = t.find("Memory leak reports about malloc and free") != std::string::npos;
                V_CHECK(note == any_malloc, "C04:report-malloc-note", "malloc note %s but model %s a malloc leak", note ? "present" : "absent", any_malloc ? "holds" : "does not hold");
                if (want.size() >= 2) nontrivial = true;
            }
            V_CHECK(det->verifOutputCanaryIntact() && strlen(txt) <= 4095, "C04:report-buffer", "report text overran its buffer");
            verif::cls("report");
        }
        desc += what + ";";
        if (verif::g_explain) fprintf(stderr, "  %s   [period=%s stage=%u live=%zu]\n", what.c_str(), PNAME[cur], stage, live.size());
        V_CHECK(rep.calls - calls_before == expect_calls, "C04:reporter", "%s: %d misuse callback(s), expected %d: %.200s", what.c_str(), rep.calls - calls_before, expect_calls, rep.last.c_str());
        if (int rc = totals_ok(what.c_str())) return rc;
    }
    // final sweep: release everything through the detector; nothing may be reported, nothing may remain
    while (!live.empty()) { char* p = live.back(); Rec rec = model[p]; det->deallocMemory(g_allocs[rec.kind], p, "end.c", 1, rec.separate); forget(p); }
    V_CHECK(rep.calls == 0 || desc.find("stale-free(0x") != std::string::npos, "C04:reporter", "misuse reported during final release: %.200s", rep.last.c_str());
    if (int rc = totals_ok("final release")) return rc;
    return 0;
}

}  // namespace

extern "C" const char* verif_property(void) { return "C04"; }
extern "C" void verif_init(void) {
    g_arena_raw = (char*)malloc(NSLOTS * SLOT + SLOT);
    g_arena = (char*)(((uintptr_t)g_arena_raw + SLOT - 1) / SLOT * SLOT);
    for (size_t k = 0; k < NSLOTS; k++) g_by_res[(uintptr_t)(g_arena + k * SLOT) % NRES].push_back((int)k);
    g_allocs[0] = new ArenaAlloc("arena new", "new", "delete");
    g_allocs[1] = new ArenaAlloc("arena new []", "new []", "delete []");
    g_allocs[2] = new ArenaAlloc("arena malloc", "malloc", "free");
    PlatformSpecificRealloc = arena_realloc;
}
extern "C" int verif_case(const uint8_t* data, size_t size) {
    Reader r(data, size);
    memset(g_used, 0, sizeof g_used);
    g_realloc_inplace = false; g_realloc_fail = false; g_node_fail = false; g_next_residue = 0;
    bool nontrivial = false; std::string desc;
    int rc = run_case(r, nontrivial, desc);
    verif::note_case(nontrivial, r.h, [&] { return desc.size() > 600 ? desc.substr(0, 600) + "..." : desc; });
    return rc;
}
extern "C" int verif_known_repro(const char*) { return -1; }
