#include "CppUTest/TestHarness.h"
#include "CppUTest/TestRegistry.h"
#include "CppUTest/TestOutput.h"
#include "CppUTest/TestTestingFixture.h"
#include "CppUTest/MemoryLeakWarningPlugin.h"
#include "CppUTest/MemoryLeakDetector.h"
#include "CppUTest/PlatformSpecificFunctions.h"
#include <unistd.h>
#include <signal.h>
#include <stdio.h>
#include <stdlib.h>
#undef new
static char* volatile g_sink; static void* (*real_malloc)(size_t); static bool fail_next;
static void* failing(size_t n) { if (fail_next) { fail_next = false; printf("malloc fails now\n"); return NULL; } return real_malloc(n); }
class Collecting : public TestOutput { public: TestFailure* kept = NULL;
  void printBuffer(const char*) override {} void flush() override {}
  void printFailure(const TestFailure& f) override { kept = new TestFailure(f); } };
static void body() { printf("body runs\n"); fail_next = true; char* p = (char*)::operator new[](16); g_sink = p; fail_next = false; ::operator delete[](p); }
static void onalarm(int) { const char m[] = "HANG: the thread waits for a lock it holds itself\n"; write(1, m, sizeof m - 1); _exit(1); }
int main() {
  real_malloc = PlatformSpecificMalloc; PlatformSpecificMalloc = failing;
  signal(SIGALRM, onalarm); alarm(5);
  MemoryLeakWarningPlugin::getGlobalDetector()->enable();
  Collecting out; TestRegistry reg; TestResult res(out); ExecFunctionTestShell shell; shell.testFunction_ = new ExecFunctionWithoutParameters(body);
  reg.addTest(&shell);
  MemoryLeakWarningPlugin::turnOnThreadSafeNewDeleteOverloads();
  reg.runAllTests(res);
  char* q = (char*)::operator new[](8); g_sink = q; ::operator delete[](q);
  MemoryLeakWarningPlugin::turnOffNewDeleteOverloads();
  printf("no hang: %d failure(s)\n", (int)res.getFailureCount());
  return 0;
}
